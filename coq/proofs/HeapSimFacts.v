(* The object-level model (model/Heap.v, property C10) computes what the value-level model (model/Mutate.v,
   model/Reconcile.v, properties C09 / C11 / C12) computes -- for get_subconverter, remap_curie_prefixes,
   remap_uri_prefixes and rewire.  (The tie for chain is h_chain_sim in HeapFacts.v.)

   The form of the statements.  An object-level derivation returns a heap and a list of addresses; the driver
   (CheckH.model_hobs) then puts the records it finds there through the strict constructor.  [h_outcome] is that
   composition.  The theorems say:  h_outcome (object-level derivation) = value-level derivation, as an equality in
   [res conv]: the same converter (all seven fields) or the same error constructor.
   - get_subconverter, remap_uri_prefixes, rewire: the records found in the fresh cells are EQUAL (as a list, in order)
     to the list the value-level function hands to its constructor, so the equality is immediate and needs no
     well-formedness hypothesis.
   - remap_curie_prefixes: the value-level function hands over "untouched records, then the modified ones in the order
     of processing"; the object level holds the records in converter order.  The two lists are permutations of each
     other and NOT equal in general (remap_curie_order_refuted); they have the same [sort_records] because canonical
     prefixes stay pairwise different, hence the same converter.  This needs [swf c] (the input is a strict,
     consistently indexed converter): on an inconsistent converter the value level raises KeyError where the object
     level goes through (remap_curie_needs_swf).
   - The records of a result converter are [sort_records] of the cells, not the cells in address order
     (h_sub_unsorted_refuted): the constructor sorts by canonical prefix. *)
From Coq Require Import Lia Permutation.
From Curies.model Require Import Str PyData Trie Conv Query Val Answer Spec CheckQ Mutate Reconcile CheckR Heap CheckH.
From Curies.proofs Require Import StrFacts TrieFacts DictFacts IndexFacts QueryFacts CheckFacts SortFacts C04Facts MutateFacts
  ChainFacts ReconcileFacts CurieFacts HeapFacts PModelM.

(* every address of the converter is a cell of the heap *)
Definition valid (h : heap) (C : hconv) : Prop := forall a, In a C -> a < length h.

(* what the driver does with the result of an object-level derivation: Converter(records found in the cells) *)
Definition h_outcome (x : res (heap * hconv)) : res conv :=
  bind x (fun hr => mk_conv true [58%N] (view (fst hr) (snd hr))).

(* ---------------------------------------------------------------- heap algebra *)
Lemma deref_app_old h t x : x < length h -> deref (h ++ t) x = deref h x.
Proof. intro H. unfold deref. apply app_nth1. exact H. Qed.

(* a block of cells, read back through its addresses *)
Lemma view_block l : forall h t, view (h ++ l ++ t) (seq (length h) (length l)) = l.
Proof.
  induction l as [|x l IH]; intros h t; [reflexivity|].
  cbn [length seq]. unfold view. cbn [map]. f_equal.
  - unfold deref. rewrite app_nth2 by lia. rewrite Nat.sub_diag. reflexivity.
  - change ((x :: l) ++ t) with ([x] ++ l ++ t). rewrite app_assoc.
    replace (S (length h)) with (length (h ++ [x])) by (rewrite app_length; simpl; lia).
    apply (IH (h ++ [x]) t).
Qed.
Lemma view_fresh h l : view (h ++ l) (seq (length h) (length l)) = l.
Proof. pose proof (view_block l h []) as H. rewrite app_nil_r in H. exact H. Qed.
Lemma view_old h t C : valid h C -> view (h ++ t) C = view h C.
Proof. intro V. unfold view. apply map_ext_in. intros a Ha. apply deref_app_old. apply V. exact Ha. Qed.

(* copying: the copies are appended to the heap in order, their addresses are the next free ones *)
Lemma copy_fold C : forall h ext acc, valid h C ->
  fold_left copy_step C (h ++ ext, acc) = (h ++ ext ++ view h C, acc ++ seq (length h + length ext) (length C)).
Proof.
  induction C as [|a C IH]; intros h ext acc V.
  - cbn [fold_left view map length seq]. rewrite !app_nil_r. reflexivity.
  - cbn [fold_left]. rewrite copy_step_eq. cbn [fst snd].
    rewrite deref_app_old by (apply V; left; reflexivity).
    rewrite <- app_assoc. rewrite (app_length h ext).
    assert (V': valid h C) by (intros x Hx; apply V; right; exact Hx).
    etransitivity; [exact (IH h (ext ++ [deref h a]) (acc ++ [length h + length ext]) V')|].
    f_equal.
    + unfold view. cbn [map]. rewrite <- app_assoc. reflexivity.
    + rewrite <- app_assoc. f_equal. cbn [length seq app]. f_equal. rewrite app_length. cbn [length].
      replace (length h + (length ext + 1)) with (S (length h + length ext)) by lia. reflexivity.
Qed.
Theorem copy_records_spec h C : valid h C -> copy_records h C = (h ++ view h C, seq (length h) (length C)).
Proof.
  intro V. rewrite copy_records_fold. pose proof (copy_fold C h [] [] V) as H.
  rewrite app_nil_r in H. cbn [app length] in H. rewrite Nat.add_0_r in H. exact H.
Qed.

(* overwriting a block cell by cell *)
Lemma hwrite_block h o t v : hwrite (h ++ o :: t) (length h) v = h ++ v :: t.
Proof. induction h as [|x h IH]; [reflexivity|]. cbn [app length hwrite]. rewrite IH. reflexivity. Qed.
Lemma overwrite_block old : forall h vals, length vals = length old ->
  h_overwrite (h ++ old) (seq (length h) (length old)) vals = h ++ vals.
Proof.
  unfold h_overwrite. induction old as [|o old IH]; intros h vals L.
  - destruct vals; [|discriminate]. reflexivity.
  - destruct vals as [|v vals]; [discriminate|]. cbn [length seq combine fold_left fst snd].
    rewrite hwrite_block.
    change (h ++ v :: old) with (h ++ [v] ++ old). rewrite app_assoc.
    replace (S (length h)) with (length (h ++ [v])) by (rewrite app_length; simpl; lia).
    rewrite (IH (h ++ [v]) vals) by (simpl in L; lia). rewrite <- app_assoc. reflexivity.
Qed.

(* ---------------------------------------------------------------- 1. get_subconverter *)
Notation keepP P := (fun r : record => existsb (fun p => mem p P) (all_prefixes r)).

Lemma h_sub_spec h C P : valid h C ->
  h_sub h C P = (h ++ filter (keepP P) (view h C), seq (length h) (length (filter (keepP P) (view h C)))).
Proof.
  intro V. unfold h_sub.
  set (C1 := filter (fun a => existsb (fun p => mem p P) (all_prefixes (deref h a))) C).
  assert (V1: valid h C1) by (intros a Ha; apply V; unfold C1 in Ha; apply filter_In in Ha; apply Ha).
  assert (E: view h C1 = filter (keepP P) (view h C)).
  { unfold view, C1. apply (filter_map_commute (deref h) (keepP P) C). }
  rewrite (copy_records_spec h C1 V1). rewrite <- E. unfold view. rewrite map_length. reflexivity.
Qed.

(* the cells of the object-level result hold exactly the kept records, in converter order *)
Theorem h_sub_view h C P h' R : valid h C -> h_sub h C P = (h', R) ->
  view h' R = filter (fun r => existsb (fun p => mem p P) (all_prefixes r)) (view h C).
Proof.
  intros V H. rewrite (h_sub_spec h C P V) in H. inversion H; subst h' R. apply view_fresh.
Qed.

Lemma mk_conv_recs d rs S : mk_conv true d rs = Val S -> recs S = sort_records rs.
Proof. intro H. apply (mk_conv_inv d rs S H). Qed.

(* tie with Mutate.get_subconverter: the same converter / the same error; the records of the value-level result are
   the cells of the object-level result sorted by canonical prefix *)
Theorem h_sub_sim c h C P h' R : recs c = view h C -> valid h C -> h_sub h C P = (h', R) ->
  get_subconverter c P = mk_conv true [58%N] (view h' R) /\
  (forall S, get_subconverter c P = Val S -> recs S = sort_records (view h' R)) /\
  (swf c -> exists S, get_subconverter c P = Val S /\ recs S = sort_records (view h' R) /\ swf S).
Proof.
  intros Ev V H. pose proof (h_sub_view h C P h' R V H) as E.
  assert (G: get_subconverter c P = mk_conv true [58%N] (view h' R)).
  { unfold get_subconverter. rewrite Ev, E. reflexivity. }
  split; [exact G|]. split.
  - intros S HS. rewrite G in HS. apply (mk_conv_recs _ _ _ HS).
  - intro Sw. destruct (sub_ok c P Sw) as (S & HS & _ & SS & _). exists S. split; [exact HS|]. split; [|exact SS].
    rewrite G in HS. apply (mk_conv_recs _ _ _ HS).
Qed.
Corollary h_sub_outcome c h C P : recs c = view h C -> valid h C ->
  h_outcome (Val (h_sub h C P)) = get_subconverter c P.
Proof.
  intros Ev V. destruct (h_sub h C P) as [h' R] eqn:H. unfold h_outcome. cbn [bind fst snd].
  symmetry. apply (h_sub_sim c h C P h' R Ev V H).
Qed.

(* ---------------------------------------------------------------- 2. h_remap *)
(* copy first, then overwrite the copies: the result is the old heap followed by the new records *)
Theorem h_remap_spec h C f : valid h C -> length (f (view h C)) = length C ->
  h_remap h C f = (h ++ f (view h C), seq (length h) (length C)).
Proof.
  intros V L. unfold h_remap. rewrite (copy_records_spec h C V).
  assert (Lv: length (view h C) = length C) by (unfold view; apply map_length).
  assert (Ev: view (h ++ view h C) (seq (length h) (length C)) = view h C).
  { rewrite <- Lv. apply view_fresh. }
  rewrite Ev. f_equal. rewrite <- Lv. apply overwrite_block. rewrite L, Lv. reflexivity.
Qed.
Theorem h_remap_view h C f h' R : valid h C -> length (f (view h C)) = length C -> h_remap h C f = (h', R) ->
  view h' R = f (view h C).
Proof.
  intros V L H. rewrite (h_remap_spec h C f V L) in H. inversion H; subst h' R. rewrite <- L. apply view_fresh.
Qed.
(* the length hypothesis is necessary: the result always has as many cells as the input converter *)
Remark h_remap_view_length h C f h' R : h_remap h C f = (h', R) -> view h' R = f (view h C) -> length (f (view h C)) = length C.
Proof.
  unfold h_remap. intros H E. pose proof (copy_records_frame h C) as (_ & _ & Lc).
  destruct (copy_records h C) as [h1 C']. inversion H; subst h' R. rewrite <- E. unfold view. rewrite map_length. exact Lc.
Qed.

(* the three value-level cell-by-cell functions, exactly as CheckH.h_derive passes them to h_remap *)
Definition f_rewire (c : conv) (m : list (str * str)) : list record -> list record :=
  fun v => map (fun r => match first_hit (all_prefixes r) m with Some n => repoint c r n true | None => r end) v.
Definition f_uri (c : conv) (m : list (str * str)) : list record -> list record :=
  fun v => map (fun r => match first_hit (all_uris r) m with Some n => repoint c r n false | None => r end) v.
Definition f_curie (c : conv) (m ordering : list (str * str)) : list record -> list record :=
  fun _ => map snd (fold_left (step_cur c m (inter (map fst m) (map snd m))) ordering (map (fun r => (r_prefix r, r)) (recs c))).

Lemma view_length h C : length (view h C) = length C.
Proof. unfold view. apply map_length. Qed.

Lemma mk_conv_sort_ext s d rs rs' : sort_records rs = sort_records rs' -> mk_conv s d rs = mk_conv s d rs'.
Proof. intro E. unfold mk_conv. rewrite E. reflexivity. Qed.

(* ---- rewire ---- *)
Theorem h_rewire_sim c m h C h' R : recs c = view h C -> valid h C -> h_remap h C (f_rewire c m) = (h', R) ->
  view h' R = rewire_records c m /\ mk_conv true [58%N] (view h' R) = rewire c m.
Proof.
  intros Ev V H. apply h_remap_view in H; [|exact V|unfold f_rewire; rewrite map_length; apply view_length].
  assert (E: view h' R = rewire_records c m) by (rewrite H; unfold f_rewire, rewire_records; rewrite Ev; reflexivity).
  split; [exact E|]. unfold rewire. rewrite E. reflexivity.
Qed.

(* ---- remap_uri_prefixes ---- *)
Theorem h_remap_uri_sim c m h C : recs c = view h C -> valid h C ->
  match remap_uri_records c m with
  | Raise e => remap_uri_prefixes c m = Raise e
  | Val rs => forall h' R, h_remap h C (f_uri c m) = (h', R) ->
                view h' R = rs /\ mk_conv true [58%N] (view h' R) = remap_uri_prefixes c m
  end.
Proof.
  intros Ev V. unfold remap_uri_prefixes. destruct (remap_uri_records c m) as [rs|e] eqn:E; [|reflexivity].
  intros h' R H. apply h_remap_view in H; [|exact V|unfold f_uri; rewrite map_length; apply view_length].
  assert (E': view h' R = rs).
  { rewrite H. unfold remap_uri_records in E. destruct (inter (map fst m) (map snd m)); [|discriminate].
    inversion E. unfold f_uri. rewrite Ev. reflexivity. }
  split; [exact E'|]. rewrite E'. reflexivity.
Qed.

(* ---- remap_curie_prefixes ---- *)
Lemma step_cur_tags c m I cur on : map fst (step_cur c m I cur on) = map fst cur.
Proof.
  unfold step_cur. destruct on as [old new]. destruct (std c old) as [orig|]; [|reflexivity].
  destruct (List.find _ cur) as [[o rc]|]; [|reflexivity].
  destruct (match cur_get_record cur new with Some (o2, _) => negb (str_eqb o2 orig) | None => false end); [reflexivity|].
  apply set_cur_tags.
Qed.
Lemma fold_step_cur_tags c m I ordering : forall cur, map fst (fold_left (step_cur c m I) ordering cur) = map fst cur.
Proof.
  induction ordering as [|on ordering IH]; intro cur; [reflexivity|]. cbn [fold_left]. rewrite IH. apply step_cur_tags.
Qed.
(* the main loop keeps the number of records, whatever the converter and the ordering *)
Lemma f_curie_length c m ordering v : length (f_curie c m ordering v) = length (recs c).
Proof.
  unfold f_curie. rewrite map_length. rewrite <- (map_length fst). rewrite fold_step_cur_tags. rewrite !map_length. reflexivity.
Qed.

(* the cells hold the current records of the main loop, in converter order (no hypothesis on c) *)
Theorem h_remap_curie_view c m ordering h C h' R : recs c = view h C -> valid h C ->
  h_remap h C (f_curie c m ordering) = (h', R) ->
  view h' R = map snd (fold_left (step_cur c m (inter (map fst m) (map snd m))) ordering (cur0 c)).
Proof.
  intros Ev V H. apply h_remap_view in H; [exact H|exact V|]. rewrite f_curie_length, Ev. apply view_length.
Qed.

Theorem h_remap_curie_sim c m h C : swf c -> recs c = view h C -> valid h C ->
  match order_curie_remapping c m with
  | Raise e => remap_curie_prefixes c m = Raise e
  | Val ordering => forall h' R, h_remap h C (f_curie c m ordering) = (h', R) ->
      exists rs S, remap_curie_records c m = Val rs /\ Permutation rs (view h' R) /\
                   sort_records (view h' R) = sort_records rs /\
                   mk_conv true [58%N] (view h' R) = remap_curie_prefixes c m /\
                   remap_curie_prefixes c m = Val S /\ recs S = sort_records (view h' R) /\ swf S
  end.
Proof.
  intros Sw Ev V. destruct (order_curie_remapping c m) as [ordering|e] eqn:Ho.
  - intros h' R H. pose proof (h_remap_curie_view c m ordering h C h' R Ev V H) as Evw.
    destruct (init_inv c Sw) as (F0 & S0 & B0).
    destruct (fold_never_raises c m (inter (map fst m) (map snd m)) (recs c) ordering Sw eq_refl (st0 c) F0 S0 B0
               (order_keys_nodup c m ordering Ho) (fun o H => match H with end)) as [st Hst].
    destruct (remap_struct c m ordering st Sw Ho Hst) as (rs & S & E1 & P & E2 & E3 & SS & _ & _ & _ & Ecur).
    rewrite <- Ecur in Evw. rewrite <- Evw in P.
    assert (N: NoDup (map r_prefix rs)).
    { apply (pairwise_nodup_map all_prefixes); [intro r; left; reflexivity|].
      destruct SS as (_ & Pp & _). rewrite E3 in Pp.
      eapply pairwise_perm; [apply disjoint_keys_sym|apply sort_perm|exact Pp]. }
    assert (Es: sort_records (view h' R) = sort_records rs).
    { symmetry. apply (sort_by_key_perm_eq r_prefix rs (view h' R) P N). }
    exists rs, S. split; [exact E1|]. split; [exact P|]. split; [exact Es|]. split.
    + unfold remap_curie_prefixes. rewrite E1. cbn [bind]. apply mk_conv_sort_ext. exact Es.
    + split; [exact E2|]. split; [rewrite Es; exact E3|exact SS].
  - unfold remap_curie_prefixes, remap_curie_records. rewrite Ho. reflexivity.
Qed.

(* ---------------------------------------------------------------- 3. the driver's h_derive against the value-level derive *)
Section Derive.
Variable fc : chr -> str.

Lemma h_derive_sub k P h C Cs cs : rc_op k = DSub P -> h_derive fc k h (C :: Cs) cs = Val (h_sub h C P).
Proof. intro E. unfold h_derive. rewrite E. reflexivity. Qed.
Lemma h_derive_rewire k m h C Cs c cs : rc_op k = DRewire m ->
  h_derive fc k h (C :: Cs) (c :: cs) = Val (h_remap h C (f_rewire c m)).
Proof. intro E. unfold h_derive. rewrite E. reflexivity. Qed.
Lemma h_derive_uri k m h C Cs c cs : rc_op k = DRemapUri m ->
  h_derive fc k h (C :: Cs) (c :: cs) =
  match remap_uri_records c m with Raise e => Raise e | Val _ => Val (h_remap h C (f_uri c m)) end.
Proof. intro E. unfold h_derive. rewrite E. reflexivity. Qed.
Lemma h_derive_curie k m h C Cs c cs : rc_op k = DRemapCurie m ->
  h_derive fc k h (C :: Cs) (c :: cs) =
  match order_curie_remapping c m with Raise e => Raise e | Val ordering => Val (h_remap h C (f_curie c m ordering)) end.
Proof. intro E. unfold h_derive. rewrite E. reflexivity. Qed.

(* DSub *)
Theorem h_derive_sub_sim k P h C Cs c cs : rc_op k = DSub P -> recs c = view h C -> valid h C ->
  h_outcome (h_derive fc k h (C :: Cs) (c :: cs)) = derive k (c :: cs).
Proof.
  intros E Ev V. rewrite (h_derive_sub k P h C Cs (c :: cs) E). unfold derive. rewrite E. apply h_sub_outcome; assumption.
Qed.
(* DRewire: the same converter or the same error (DuplicateURIPrefixes / DuplicatePrefixes of the constructor) *)
Theorem h_derive_rewire_sim k m h C Cs c cs : rc_op k = DRewire m -> recs c = view h C -> valid h C ->
  h_outcome (h_derive fc k h (C :: Cs) (c :: cs)) = derive k (c :: cs).
Proof.
  intros E Ev V. rewrite (h_derive_rewire k m h C Cs c cs E). unfold derive. rewrite E.
  destruct (h_remap h C (f_rewire c m)) as [h' R] eqn:H. unfold h_outcome. cbn [bind fst snd].
  apply (h_rewire_sim c m h C h' R Ev V H).
Qed.
(* DRemapUri: the same converter or the same error (TransitiveError before anything is allocated, or the constructor's) *)
Theorem h_derive_uri_sim k m h C Cs c cs : rc_op k = DRemapUri m -> recs c = view h C -> valid h C ->
  h_outcome (h_derive fc k h (C :: Cs) (c :: cs)) = derive k (c :: cs).
Proof.
  intros E Ev V. rewrite (h_derive_uri k m h C Cs c cs E). unfold derive. rewrite E.
  pose proof (h_remap_uri_sim c m h C Ev V) as Sim. destruct (remap_uri_records c m) as [rs|e].
  - destruct (h_remap h C (f_uri c m)) as [h' R] eqn:H. unfold h_outcome. cbn [bind fst snd]. apply (Sim h' R eq_refl).
  - unfold h_outcome. cbn [bind]. symmetry. exact Sim.
Qed.
(* DRemapCurie: the same converter or the same error (the four documented errors of the ordering) -- for a well-formed input *)
Theorem h_derive_curie_sim k m h C Cs c cs : rc_op k = DRemapCurie m -> swf c -> recs c = view h C -> valid h C ->
  h_outcome (h_derive fc k h (C :: Cs) (c :: cs)) = derive k (c :: cs).
Proof.
  intros E Sw Ev V. rewrite (h_derive_curie k m h C Cs c cs E). unfold derive. rewrite E.
  pose proof (h_remap_curie_sim c m h C Sw Ev V) as Sim. destruct (order_curie_remapping c m) as [ordering|e].
  - destruct (h_remap h C (f_curie c m ordering)) as [h' R] eqn:H. unfold h_outcome. cbn [bind fst snd].
    destruct (Sim h' R eq_refl) as (rs & S & _ & _ & _ & G & _). exact G.
  - unfold h_outcome. cbn [bind]. symmetry. exact Sim.
Qed.
End Derive.

(* all five derivations at once, in the setting of the driver: converters laid out on a heap *)
Definition laid (h : heap) (cs : list conv) (Cs : list hconv) : Prop :=
  Forall2 (fun c C => recs c = view h C /\ valid h C) cs Cs.

Theorem h_derive_sim k h Cs cs : laid h cs Cs -> Forall swf cs ->
  match rc_op k with
  | DChain _ =>
      match derive k cs, h_derive (fold_of (rc_fold k)) k h Cs cs with
      | Val ca, Val (h', R) => recs ca = view h' R /\ swf ca
      | Raise e, Raise e' => e = e'
      | _, _ => False
      end
  | _ => h_outcome (h_derive (fold_of (rc_fold k)) k h Cs cs) = derive k cs
  end.
Proof.
  intros L Sw. destruct (rc_op k) as [sens|P|m|m|m] eqn:E.
  - unfold derive, h_derive. rewrite E. apply (h_chain_sim (fold_of (rc_fold k)) h Cs cs sens). exact L.
  - destruct L as [|c C cs' Cs' [Ev V] L']; [unfold h_derive, derive; rewrite E; reflexivity|].
    apply (h_derive_sub_sim _ k P h C Cs' c cs' E Ev V).
  - destruct L as [|c C cs' Cs' [Ev V] L']; [unfold h_derive, derive; rewrite E; reflexivity|].
    inversion Sw as [|? ? Sc _]; subst. apply (h_derive_curie_sim _ k m h C Cs' c cs' E Sc Ev V).
  - destruct L as [|c C cs' Cs' [Ev V] L']; [unfold h_derive, derive; rewrite E; reflexivity|].
    apply (h_derive_uri_sim _ k m h C Cs' c cs' E Ev V).
  - destruct L as [|c C cs' Cs' [Ev V] L']; [unfold h_derive, derive; rewrite E; reflexivity|].
    apply (h_derive_rewire_sim _ k m h C Cs' c cs' E Ev V).
Qed.

(* a strict converter's records pass the strict constructor again *)
Lemma swf_mk_conv ca : swf ca -> exists S, mk_conv true [58%N] (recs ca) = Val S.
Proof.
  intros (_ & Pp & Pu). apply mk_conv_ok.
  - eapply pairwise_perm; [apply disjoint_keys_sym|symmetry; apply sort_perm|exact Pu].
  - eapply pairwise_perm; [apply disjoint_keys_sym|symmetry; apply sort_perm|exact Pp].
Qed.

(* the outcome code the C10 observation starts with is the code of the value-level derivation (all five operations) *)
Theorem h_derive_code k h Cs cs : laid h cs Cs -> Forall swf cs ->
  derive_code (h_outcome (h_derive (fold_of (rc_fold k)) k h Cs cs)) = derive_code (derive k cs).
Proof.
  intros L Sw. pose proof (h_derive_sim k h Cs cs L Sw) as Sim.
  destruct (rc_op k) as [sens|P|m|m|m]; try (rewrite Sim; reflexivity).
  destruct (derive k cs) as [ca|e]; destruct (h_derive (fold_of (rc_fold k)) k h Cs cs) as [[h' R]|e']; try contradiction.
  - destruct Sim as [Er Sa]. unfold h_outcome. cbn [bind fst snd]. rewrite <- Er.
    destruct (swf_mk_conv ca Sa) as [S HS]. rewrite HS. reflexivity.
  - subst e'. reflexivity.
Qed.

(* ---- the driver's layout satisfies the hypotheses ---- *)
Lemma layout_laid cs : forall pre, laid (pre ++ concat (map recs cs)) cs (layout (map recs cs) (length pre)).
Proof.
  induction cs as [|c cs IH]; intro pre; [constructor|].
  cbn [map layout concat]. constructor.
  - split.
    + symmetry. apply view_block.
    + intros a Ha. apply in_seq in Ha. rewrite !app_length. lia.
  - specialize (IH (pre ++ recs c)). rewrite <- app_assoc, app_length in IH. exact IH.
Qed.
Lemma input_convs_swf k cs : input_convs k = Val cs -> Forall swf cs.
Proof.
  unfold input_convs. generalize (rc_inputs k). intro l. revert cs.
  induction l as [|rs l IH]; intros cs H; cbn [map sequence] in H.
  - inversion H. constructor.
  - destruct (mk_conv true [58%N] rs) as [c|e] eqn:Ec; cbn [bind] in H; [|discriminate].
    destruct (sequence (map (mk_conv true [58%N]) l)) as [cs'|e]; cbn [bind] in H; [|discriminate].
    inversion H; subst cs. constructor; [eapply mk_conv_swf; exact Ec|apply IH; reflexivity].
Qed.

(* CheckH.model_hobs: heap h0 = all input records, Cs = their layout.  What it computes before the follow-up steps
   is the value-level derivation of CheckR (properties C09 / C11 / C12) *)
Theorem model_hobs_derive k cs : input_convs k = Val cs ->
  let h0 := concat (map recs cs) in let Cs := layout (map recs cs) 0 in
  laid h0 cs Cs /\
  derive_code (h_outcome (h_derive (fold_of (rc_fold k)) k h0 Cs cs)) = derive_code (derive k cs) /\
  match rc_op k with
  | DChain _ =>
      match derive k cs, h_derive (fold_of (rc_fold k)) k h0 Cs cs with
      | Val ca, Val (h', R) => recs ca = view h' R /\ swf ca
      | Raise e, Raise e' => e = e'
      | _, _ => False
      end
  | _ => h_outcome (h_derive (fold_of (rc_fold k)) k h0 Cs cs) = derive k cs
  end.
Proof.
  intro H. cbv zeta. pose proof (layout_laid cs []) as L. cbn [app length] in L.
  pose proof (input_convs_swf k cs H) as Sw.
  split; [exact L|]. split; [apply h_derive_code; assumption|apply h_derive_sim; assumption].
Qed.

(* ---------------------------------------------------------------- 4. the weaker forms are necessary: witnesses *)
Definition w_ra : record := {| r_prefix := [97%N]; r_uri := [120%N]; r_psyn := []; r_usyn := []; r_pat := None |}.   (* a -> x *)
Definition w_rb : record := {| r_prefix := [98%N]; r_uri := [121%N]; r_psyn := []; r_usyn := []; r_pat := None |}.   (* b -> y *)
(* a converter holding b before a: chain / add_record append, they do not sort *)
Definition w_cba : conv :=
  match absorb (fun x => [x]) (Val empty_conv) [w_rb; w_ra] true with Val c => c | Raise _ => empty_conv end.
Definition w_cab : conv := match mk_conv true [58%N] [w_ra; w_rb] with Val c => c | Raise _ => empty_conv end.
(* an inconsistent "converter": its synonym index knows a prefix no record has (not constructible through the API) *)
Definition w_cbad : conv :=
  {| delim := [58%N]; recs := []; pmap := []; synmap := [([97%N], [122%N])]; rpmap := []; ctrie := empty; patmap := [] |}.

Lemma w_cba_swf : swf w_cba.
Proof.
  assert (E: absorb (fun x => [x]) (Val empty_conv) [w_rb; w_ra] true = Val w_cba) by (vm_compute; reflexivity).
  apply (absorb_facts (fun x => [x]) [w_rb; w_ra] true empty_conv w_cba empty_swf E).
Qed.
Lemma w_cab_swf : swf w_cab.
Proof.
  assert (E: mk_conv true [58%N] [w_ra; w_rb] = Val w_cab) by (vm_compute; reflexivity).
  apply (mk_conv_swf _ _ _ E).
Qed.
Lemma valid2 (x y : record) : valid [x; y] [0; 1].
Proof. intros a [<-|[<-|[]]]; simpl; lia. Qed.

(* get_subconverter: "recs S = view h' R" (without sort_records) is false.  Input holds [b; a], both kept: the cells
   hold [b; a], the constructor of the sub-converter sorts to [a; b]. *)
Lemma h_sub_unsorted_refuted : exists c h C P h' R S,
  swf c /\ recs c = view h C /\ valid h C /\ h_sub h C P = (h', R) /\ get_subconverter c P = Val S /\
  recs S <> view h' R /\ recs S = sort_records (view h' R).
Proof.
  exists w_cba, [w_rb; w_ra], [0; 1], [[97%N]; [98%N]].
  eexists. eexists. eexists.
  split; [exact w_cba_swf|]. split; [vm_compute; reflexivity|]. split; [apply valid2|].
  split; [vm_compute; reflexivity|]. split; [vm_compute; reflexivity|].
  split; [vm_compute; discriminate|vm_compute; reflexivity].
Qed.

(* remap_curie_prefixes: "view h' R = rs" for the list rs the value level hands to its constructor is false.
   Input [a; b], remapping a -> c: the cells hold [c(a); b] (converter order), the value level hands over
   [b; c(a)] (untouched records first, then the modified ones). *)
Lemma remap_curie_order_refuted : exists c m ordering h C h' R rs,
  swf c /\ recs c = view h C /\ valid h C /\ order_curie_remapping c m = Val ordering /\
  h_remap h C (f_curie c m ordering) = (h', R) /\ remap_curie_records c m = Val rs /\ view h' R <> rs.
Proof.
  exists w_cab, [([97%N], [99%N])], [([97%N], [99%N])], [w_ra; w_rb], [0; 1].
  eexists. eexists. eexists.
  split; [exact w_cab_swf|]. split; [vm_compute; reflexivity|]. split; [apply valid2|].
  split; [vm_compute; reflexivity|]. split; [vm_compute; reflexivity|]. split; [vm_compute; reflexivity|].
  vm_compute. discriminate.
Qed.

(* remap_curie_prefixes: h_derive_curie_sim without [swf c] is false.  The synonym index sends a to z, no record has
   the original prefix z: the value level raises KeyError (records.pop), the object level writes nothing and builds
   the empty converter. *)
Lemma remap_curie_needs_swf : exists fc k m h C c,
  rc_op k = DRemapCurie m /\ recs c = view h C /\ valid h C /\
  derive k [c] = Raise EKeyError /\ (exists S, h_outcome (h_derive fc k h [C] [c]) = Val S) /\
  h_outcome (h_derive fc k h [C] [c]) <> derive k [c].
Proof.
  exists (fun x => [x]), {| rc_inputs := []; rc_op := DRemapCurie [([97%N], [99%N])]; rc_strs := []; rc_pairs := []; rc_fold := [] |},
         [([97%N], [99%N])], [], [], w_cbad.
  split; [reflexivity|]. split; [reflexivity|]. split; [intros a []|].
  split; [vm_compute; reflexivity|]. split; [eexists; vm_compute; reflexivity|].
  vm_compute. discriminate.
Qed.

(* ---------------------------------------------------------------- assumptions *)
Print Assumptions copy_records_spec.
Print Assumptions h_sub_view.
Print Assumptions h_sub_sim.
Print Assumptions h_sub_outcome.
Print Assumptions h_remap_spec.
Print Assumptions h_remap_view.
Print Assumptions h_remap_view_length.
Print Assumptions h_rewire_sim.
Print Assumptions h_remap_uri_sim.
Print Assumptions h_remap_curie_view.
Print Assumptions h_remap_curie_sim.
Print Assumptions h_derive_sub_sim.
Print Assumptions h_derive_rewire_sim.
Print Assumptions h_derive_uri_sim.
Print Assumptions h_derive_curie_sim.
Print Assumptions h_derive_sim.
Print Assumptions h_derive_code.
Print Assumptions model_hobs_derive.
Print Assumptions h_sub_unsorted_refuted.
Print Assumptions remap_curie_order_refuted.
Print Assumptions remap_curie_needs_swf.

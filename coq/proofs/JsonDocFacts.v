(* Whole JSON documents (model/JsonDoc.v): the streaming string scanner is the validated scan_body; the parser's fuel
   is always enough; json.loads(json.dumps(v, indent=4, sort_keys=True, ensure_ascii=a)) for every value
   (json_parse_dump); the document round trip (json_doc_roundtrip), exactly when it holds (json_doc_roundtrip_iff),
   the counterexample under ensure_ascii=True; the two shapes curies writes (epm_text_roundtrip, jsonld_text_roundtrip). *)
From Coq Require Import Lia ZArith Permutation Sorted.
From Curies.model Require Import Str PyData JsonStr JsonDoc.
From Curies.proofs Require Import StrFacts DictFacts SortFacts JsonStrFacts.
Local Open Scope N_scope.

(* ---------- scan_str is scan_body with the rest of the text returned ---------- *)
Lemma low_escape_app_some t u rest : low_escape t = Some u -> low_escape (t ++ rest) = Some u.
Proof.
  destruct t as [|a [|b [|g1 [|g2 [|g3 [|g4 t]]]]]]; cbn [low_escape]; try discriminate.
  intro H. exact H.
Qed.

Lemma low_escape_app_none t rest :
  low_escape t = None -> scan_body t <> None -> low_escape (t ++ rest) = None.
Proof.
  intros Hl Hs.
  destruct t as [|a t]; [exfalso; apply Hs; reflexivity|].
  destruct (N.eq_dec a 92) as [->|Ha]; [|apply low_escape_not_backslash; exact Ha].
  destruct t as [|b t]; [exfalso; apply Hs; reflexivity|].
  destruct (N.eq_dec b 117) as [->|Hb]; [|apply low_escape_not_u; exact Hb].
  destruct t as [|g1 [|g2 [|g3 [|g4 t]]]]; try (exfalso; apply Hs; reflexivity).
  exact Hl.
Qed.

Lemma scan_body_str_n n : forall body r rest, (length body <= n)%nat ->
  scan_body body = Some r -> scan_str (body ++ rest) = Some (r, rest).
Proof.
  induction n as [|n IH]; intros body r rest Hn H.
  - destruct body; [discriminate | cbn [length] in Hn; lia].
  - destruct body as [|c t]; [discriminate|].
    cbn [length] in Hn. cbn [scan_body] in H. cbn [app scan_str].
    destruct (c =? 34) eqn:E34.
    { destruct t; [|discriminate]. inversion H; subst. reflexivity. }
    destruct (c =? 92) eqn:E92.
    { destruct t as [|e t1]; [discriminate|]. cbn [length] in Hn. cbn [app].
      destruct (e =? 117) eqn:E117.
      - destruct t1 as [|h1 [|h2 [|h3 [|h4 t2]]]]; try discriminate. cbn [length] in Hn. cbn [app].
        destruct (hex4val h1 h2 h3 h4) as [u1|]; [|discriminate].
        destruct (if is_high u1 then low_escape t2 else None) as [u2|] eqn:EL.
        + destruct (is_high u1); [|discriminate].
          rewrite (low_escape_app_some _ _ rest EL).
          destruct t2 as [|a1 [|a2 [|a3 [|a4 [|a5 [|a6 t3]]]]]]; try discriminate.
          cbn [length] in Hn. cbn [app].
          destruct (scan_body t3) as [r'|] eqn:E3; [|discriminate]. inversion H; subst r.
          rewrite (IH t3 r' rest) by (try lia; exact E3). reflexivity.
        + destruct (scan_body t2) as [r'|] eqn:E2; [|discriminate]. inversion H; subst r.
          assert (EL' : (if is_high u1 then low_escape (t2 ++ rest) else None) = None).
          { destruct (is_high u1); [|reflexivity]. apply low_escape_app_none; [exact EL | rewrite E2; discriminate]. }
          rewrite EL'. rewrite (IH t2 r' rest) by (try lia; exact E2). reflexivity.
      - destruct (unescape1 e) as [c'|]; [|discriminate].
        destruct (scan_body t1) as [r'|] eqn:E1; [|discriminate]. inversion H; subst r.
        rewrite (IH t1 r' rest) by (try lia; exact E1). reflexivity. }
    destruct (c <? 32); [discriminate|].
    destruct (scan_body t) as [r'|] eqn:E1; [|discriminate]. inversion H; subst r.
    rewrite (IH t r' rest) by (try lia; exact E1). reflexivity.
Qed.

Lemma scan_body_str body r rest : scan_body body = Some r -> scan_str (body ++ rest) = Some (r, rest).
Proof. apply (scan_body_str_n (length body)). apply le_n. Qed.

Lemma low_escape_app_inv t rest : low_escape (t ++ rest) = None -> low_escape t = None.
Proof.
  intro H. destruct (low_escape t) as [u|] eqn:E; [|reflexivity].
  rewrite (low_escape_app_some _ _ rest E) in H. discriminate.
Qed.

Lemma scan_str_body_n n : forall s r rest, (length s <= n)%nat ->
  scan_str s = Some (r, rest) -> exists body, s = body ++ rest /\ scan_body body = Some r.
Proof.
  induction n as [|n IH]; intros s r rest Hn H.
  - destruct s; [discriminate | cbn [length] in Hn; lia].
  - destruct s as [|c t]; [discriminate|].
    cbn [length] in Hn. cbn [scan_str] in H.
    destruct (c =? 34) eqn:E34.
    { inversion H; subst. exists [c]. split; [reflexivity|]. cbn [scan_body]. rewrite E34. reflexivity. }
    destruct (c =? 92) eqn:E92.
    { destruct t as [|e t1]; [discriminate|]. cbn [length] in Hn.
      destruct (e =? 117) eqn:E117.
      - destruct t1 as [|h1 [|h2 [|h3 [|h4 t2]]]]; try discriminate. cbn [length] in Hn.
        destruct (hex4val h1 h2 h3 h4) as [u1|] eqn:EH; [|discriminate].
        destruct (if is_high u1 then low_escape t2 else None) as [u2|] eqn:EL.
        + destruct t2 as [|a1 [|a2 [|a3 [|a4 [|a5 [|a6 t3]]]]]]; try discriminate.
          cbn [length] in Hn.
          destruct (scan_str t3) as [[r' rest']|] eqn:E3; [|discriminate]. inversion H; subst r rest'.
          destruct (IH t3 r' rest ltac:(lia) E3) as (b3 & Hb & Hs).
          exists (c :: e :: h1 :: h2 :: h3 :: h4 :: a1 :: a2 :: a3 :: a4 :: a5 :: a6 :: b3).
          split; [cbn [app]; rewrite Hb; reflexivity|].
          cbn [scan_body]. rewrite E34, E92, E117, EH.
          replace (if is_high u1 then low_escape (a1 :: a2 :: a3 :: a4 :: a5 :: a6 :: b3) else None) with (Some u2)
            by (rewrite <- EL; reflexivity).
          rewrite Hs. reflexivity.
        + destruct (scan_str t2) as [[r' rest']|] eqn:E2; [|discriminate]. inversion H; subst r rest'.
          destruct (IH t2 r' rest ltac:(lia) E2) as (b2 & Hb & Hs).
          exists (c :: e :: h1 :: h2 :: h3 :: h4 :: b2).
          split; [cbn [app]; rewrite Hb; reflexivity|].
          cbn [scan_body]. rewrite E34, E92, E117, EH.
          replace (if is_high u1 then low_escape b2 else None) with (@None N).
          * rewrite Hs. reflexivity.
          * destruct (is_high u1); [|reflexivity]. symmetry. apply (low_escape_app_inv b2 rest).
            rewrite <- Hb. exact EL.
      - destruct (unescape1 e) as [c'|] eqn:EU; [|discriminate].
        destruct (scan_str t1) as [[r' rest']|] eqn:E1; [|discriminate]. inversion H; subst r rest'.
        destruct (IH t1 r' rest ltac:(lia) E1) as (b1 & Hb & Hs).
        exists (c :: e :: b1). split; [cbn [app]; rewrite Hb; reflexivity|].
        cbn [scan_body]. rewrite E34, E92, E117, EU, Hs. reflexivity. }
    destruct (c <? 32) eqn:E32; [discriminate|].
    destruct (scan_str t) as [[r' rest']|] eqn:E1; [|discriminate]. inversion H; subst r rest'.
    destruct (IH t r' rest ltac:(lia) E1) as (b1 & Hb & Hs).
    exists (c :: b1). split; [cbn [app]; rewrite Hb; reflexivity|].
    cbn [scan_body]. rewrite E34, E92, E32, Hs. reflexivity.
Qed.

(* the streaming scanner accepts exactly a literal body accepted by the validated scan_body, followed by anything *)
Theorem scan_str_iff s r rest :
  scan_str s = Some (r, rest) <-> exists body, s = body ++ rest /\ scan_body body = Some r.
Proof.
  split.
  - apply (scan_str_body_n (length s)). apply le_n.
  - intros (body & -> & H). apply scan_body_str. exact H.
Qed.

(* the rest is strictly shorter *)
Lemma scan_str_length s r rest : scan_str s = Some (r, rest) -> (length rest < length s)%nat.
Proof.
  intro H. apply scan_str_iff in H. destruct H as (body & -> & H).
  rewrite app_length. destruct body; [discriminate | cbn [length]; lia].
Qed.

(* what json.loads reads for a literal the encoder wrote, whatever follows it *)
Lemma scan_str_encode ascii s rest : negb ascii || str_valid s = true ->
  scan_str (flat_map (esc_char ascii) s ++ 34 :: rest) = Some (str_readback ascii s, rest).
Proof.
  intro Hv.
  change (flat_map (esc_char ascii) s ++ 34 :: rest) with (flat_map (esc_char ascii) s ++ [34] ++ rest).
  rewrite app_assoc. apply scan_body_str.
  destruct ascii; cbn [negb orb str_readback] in *.
  - apply scan_encode_ascii. exact Hv.
  - pose proof (json_decode_encode_raw s) as H. unfold json_decode_str, json_encode_str in H.
    cbn [N.eqb Pos.eqb] in H. exact H.
Qed.

(* ---------- induction on values ---------- *)
Section jv_induction.
  Variable P : jv -> Prop.
  Hypothesis HS : forall s, P (JS s).
  Hypothesis HT : P JTrue.
  Hypothesis HF : P JFalse.
  Hypothesis HN : P JNull.
  Hypothesis HA : forall l, Forall P l -> P (JArr l).
  Hypothesis HO : forall kvs, Forall (fun kv => P (snd kv)) kvs -> P (JObj kvs).
  Fixpoint jv_ind2 (v : jv) : P v :=
    match v with
    | JS s => HS s
    | JTrue => HT
    | JFalse => HF
    | JNull => HN
    | JArr l =>
        HA l ((fix go (l : list jv) : Forall P l :=
                 match l with
                 | [] => Forall_nil _
                 | x :: t => Forall_cons x (jv_ind2 x) (go t)
                 end) l)
    | JObj kvs =>
        HO kvs ((fix go (l : list (str * jv)) : Forall (fun kv => P (snd kv)) l :=
                   match l with
                   | [] => Forall_nil _
                   | kv :: t => Forall_cons kv (jv_ind2 (snd kv)) (go t)
                   end) kvs)
    end.
End jv_induction.

(* ---------- the parser, one step at a time ---------- *)
Lemma parse_value_eq f s :
  parse_value (S f) s =
  match s with
  | [] => None
  | c :: t =>
      if c =? 34 then
        match scan_str t with
        | Some (r, rest) => Some (JS r, rest)
        | None => None
        end
      else if c =? 123 then
        match skip_ws t with
        | [] => None
        | d :: t' =>
            if d =? 125 then Some (JObj [], t')
            else match parse_members f (d :: t') with
                 | Some (kvs, rest) => Some (JObj (dict_of kvs), rest)
                 | None => None
                 end
        end
      else if c =? 91 then
        match skip_ws t with
        | [] => None
        | d :: t' =>
            if d =? 93 then Some (JArr [], t')
            else match parse_elems f (d :: t') with
                 | Some (vs, rest) => Some (JArr vs, rest)
                 | None => None
                 end
        end
      else if prefixb lit_null s then Some (JNull, skipn 4 s)
      else if prefixb lit_true s then Some (JTrue, skipn 4 s)
      else if prefixb lit_false s then Some (JFalse, skipn 5 s)
      else None
  end.
Proof. reflexivity. Qed.

Lemma parse_elems_eq f s :
  parse_elems (S f) s =
  match parse_value f s with
  | None => None
  | Some (v, r) =>
      match skip_ws r with
      | [] => None
      | d :: r' =>
          if d =? 93 then Some ([v], r')
          else if d =? 44 then
            match parse_elems f (skip_ws r') with
            | Some (vs, rest) => Some (v :: vs, rest)
            | None => None
            end
          else None
      end
  end.
Proof. reflexivity. Qed.

Lemma parse_members_eq f s :
  parse_members (S f) s =
  match s with
  | [] => None
  | q :: t =>
      if q =? 34 then
        match scan_str t with
        | None => None
        | Some (k, r) =>
            match skip_ws r with
            | [] => None
            | col :: r1 =>
                if col =? 58 then
                  match parse_value f (skip_ws r1) with
                  | None => None
                  | Some (v, r2) =>
                      match skip_ws r2 with
                      | [] => None
                      | d :: r3 =>
                          if d =? 125 then Some ([(k, v)], r3)
                          else if d =? 44 then
                            match parse_members f (skip_ws r3) with
                            | Some (kvs, rest) => Some ((k, v) :: kvs, rest)
                            | None => None
                            end
                          else None
                      end
                  end
                else None
            end
        end
      else None
  end.
Proof. reflexivity. Qed.

(* ---------- more fuel never changes an answer ---------- *)
Lemma parse_mono_step f :
  (forall s r, parse_value f s = Some r -> parse_value (S f) s = Some r) /\
  (forall s r, parse_elems f s = Some r -> parse_elems (S f) s = Some r) /\
  (forall s r, parse_members f s = Some r -> parse_members (S f) s = Some r).
Proof.
  induction f as [|f (IHv & IHe & IHm)]; [repeat split; intros s r H; discriminate|].
  repeat split; intros s r H.
  - rewrite parse_value_eq in H. rewrite parse_value_eq.
    destruct s as [|c t]; [discriminate|].
    destruct (c =? 34); [exact H|].
    destruct (c =? 123).
    { destruct (skip_ws t) as [|d t']; [discriminate|]. destruct (d =? 125); [exact H|].
      destruct (parse_members f (d :: t')) as [[kvs rest]|] eqn:E; [|discriminate].
      rewrite (IHm _ _ E). exact H. }
    destruct (c =? 91); [|exact H].
    destruct (skip_ws t) as [|d t']; [discriminate|]. destruct (d =? 93); [exact H|].
    destruct (parse_elems f (d :: t')) as [[vs rest]|] eqn:E; [|discriminate].
    rewrite (IHe _ _ E). exact H.
  - rewrite parse_elems_eq in H. rewrite parse_elems_eq.
    destruct (parse_value f s) as [[v r0]|] eqn:E; [|discriminate].
    rewrite (IHv _ _ E).
    destruct (skip_ws r0) as [|d r']; [discriminate|]. destruct (d =? 93); [exact H|].
    destruct (d =? 44); [|discriminate].
    destruct (parse_elems f (skip_ws r')) as [[vs rest]|] eqn:E2; [|discriminate].
    rewrite (IHe _ _ E2). exact H.
  - rewrite parse_members_eq in H. rewrite parse_members_eq.
    destruct s as [|q t]; [discriminate|].
    destruct (q =? 34); [|discriminate].
    destruct (scan_str t) as [[k r0]|]; [|discriminate].
    destruct (skip_ws r0) as [|col r1]; [discriminate|]. destruct (col =? 58); [|discriminate].
    destruct (parse_value f (skip_ws r1)) as [[v r2]|] eqn:E; [|discriminate].
    rewrite (IHv _ _ E).
    destruct (skip_ws r2) as [|d r3]; [discriminate|]. destruct (d =? 125); [exact H|].
    destruct (d =? 44); [|discriminate].
    destruct (parse_members f (skip_ws r3)) as [[kvs rest]|] eqn:E2; [|discriminate].
    rewrite (IHm _ _ E2). exact H.
Qed.

Lemma parse_value_mono f f' s r : (f <= f')%nat -> parse_value f s = Some r -> parse_value f' s = Some r.
Proof. intros Hle H. induction Hle as [|f' Hle IH]; [exact H | apply parse_mono_step; exact IH]. Qed.
Lemma parse_elems_mono f f' s r : (f <= f')%nat -> parse_elems f s = Some r -> parse_elems f' s = Some r.
Proof. intros Hle H. induction Hle as [|f' Hle IH]; [exact H | apply parse_mono_step; exact IH]. Qed.
Lemma parse_members_mono f f' s r : (f <= f')%nat -> parse_members f s = Some r -> parse_members f' s = Some r.
Proof. intros Hle H. induction Hle as [|f' Hle IH]; [exact H | apply parse_mono_step; exact IH]. Qed.

(* ---------- 2 * length + 1 is always enough fuel ---------- *)
Lemma skip_ws_length s : (length (skip_ws s) <= length s)%nat.
Proof.
  induction s as [|c t IH]; [apply le_n|]. cbn [skip_ws]. destruct (is_ws c); cbn [length]; lia.
Qed.

Lemma parse_enough f :
  (forall s r, parse_value f s = Some r ->
     (length (snd r) < length s)%nat /\
     forall f', (2 * length s + 1 <= f')%nat -> parse_value f' s = Some r) /\
  (forall s r, parse_elems f s = Some r ->
     (length (snd r) < length s)%nat /\
     forall f', (2 * length s + 2 <= f')%nat -> parse_elems f' s = Some r) /\
  (forall s r, parse_members f s = Some r ->
     (length (snd r) < length s)%nat /\
     forall f', (2 * length s + 2 <= f')%nat -> parse_members f' s = Some r).
Proof.
  induction f as [|f (IHv & IHe & IHm)]; [repeat split; discriminate|].
  split; [|split]; intros s r H.
  - rewrite parse_value_eq in H.
    destruct s as [|c t]; [discriminate|]. cbn [length].
    destruct (c =? 34) eqn:E34.
    { destruct (scan_str t) as [[r0 rest]|] eqn:Es; [|discriminate]. inversion H; subst r. cbn [snd].
      pose proof (scan_str_length _ _ _ Es) as Hl. split; [lia|].
      intros f' Hf'. destruct f' as [|f']; [lia|]. rewrite parse_value_eq, E34, Es. reflexivity. }
    destruct (c =? 123) eqn:E123.
    { pose proof (skip_ws_length t) as Hw.
      destruct (skip_ws t) as [|d t'] eqn:Ew; [discriminate|]. cbn [length] in Hw.
      destruct (d =? 125) eqn:E125.
      - inversion H; subst r. cbn [snd]. split; [lia|].
        intros f' Hf'. destruct f' as [|f']; [lia|]. rewrite parse_value_eq, E34, E123, Ew, E125. reflexivity.
      - destruct (parse_members f (d :: t')) as [[kvs rest]|] eqn:Em; [|discriminate].
        inversion H; subst r. cbn [snd].
        destruct (IHm _ _ Em) as (Hl & Hf). cbn [snd length] in Hl. split; [lia|].
        intros f' Hf'. destruct f' as [|f']; [lia|].
        rewrite parse_value_eq, E34, E123, Ew, E125, Hf by (cbn [length]; lia). reflexivity. }
    destruct (c =? 91) eqn:E91.
    { pose proof (skip_ws_length t) as Hw.
      destruct (skip_ws t) as [|d t'] eqn:Ew; [discriminate|]. cbn [length] in Hw.
      destruct (d =? 93) eqn:E93.
      - inversion H; subst r. cbn [snd]. split; [lia|].
        intros f' Hf'. destruct f' as [|f']; [lia|]. rewrite parse_value_eq, E34, E123, E91, Ew, E93. reflexivity.
      - destruct (parse_elems f (d :: t')) as [[vs rest]|] eqn:Em; [|discriminate].
        inversion H; subst r. cbn [snd].
        destruct (IHe _ _ Em) as (Hl & Hf). cbn [snd length] in Hl. split; [lia|].
        intros f' Hf'. destruct f' as [|f']; [lia|].
        rewrite parse_value_eq, E34, E123, E91, Ew, E93, Hf by (cbn [length]; lia). reflexivity. }
    split.
    + assert (Hk : forall k x, Some (x, skipn (S k) (c :: t)) = Some r -> (length (snd r) < S (length t))%nat).
      { intros k x Hx. injection Hx as Hx. rewrite <- Hx. unfold snd. rewrite skipn_length. cbn [length]. lia. }
      destruct (prefixb lit_null (c :: t)); [exact (Hk _ _ H)|].
      destruct (prefixb lit_true (c :: t)); [exact (Hk _ _ H)|].
      destruct (prefixb lit_false (c :: t)); [exact (Hk _ _ H)|].
      discriminate.
    + intros f' Hf'. destruct f' as [|f']; [lia|]. rewrite parse_value_eq, E34, E123, E91. exact H.
  - rewrite parse_elems_eq in H.
    destruct (parse_value f s) as [[v r0]|] eqn:Ev; [|discriminate].
    destruct (IHv _ _ Ev) as (Hl & Hf). cbn [snd] in Hl.
    pose proof (skip_ws_length r0) as Hw.
    destruct (skip_ws r0) as [|d r'] eqn:Ew; [discriminate|]. cbn [length] in Hw.
    destruct (d =? 93) eqn:E93.
    { inversion H; subst r. cbn [snd]. split; [lia|].
      intros f' Hf'. destruct f' as [|f']; [lia|]. rewrite parse_elems_eq, Hf, Ew, E93 by lia. reflexivity. }
    destruct (d =? 44) eqn:E44; [|discriminate].
    destruct (parse_elems f (skip_ws r')) as [[vs rest]|] eqn:Ee; [|discriminate].
    inversion H; subst r. cbn [snd].
    destruct (IHe _ _ Ee) as (Hl2 & Hf2). cbn [snd] in Hl2.
    pose proof (skip_ws_length r') as Hw2. split; [lia|].
    intros f' Hf'. destruct f' as [|f']; [lia|].
    rewrite parse_elems_eq, Hf, Ew, E93, E44, Hf2 by lia. reflexivity.
  - rewrite parse_members_eq in H.
    destruct s as [|q t]; [discriminate|]. cbn [length].
    destruct (q =? 34) eqn:E34; [|discriminate].
    destruct (scan_str t) as [[k r0]|] eqn:Es; [|discriminate].
    pose proof (scan_str_length _ _ _ Es) as Hl0.
    pose proof (skip_ws_length r0) as Hw0.
    destruct (skip_ws r0) as [|col r1] eqn:Ew0; [discriminate|]. cbn [length] in Hw0.
    destruct (col =? 58) eqn:E58; [|discriminate].
    pose proof (skip_ws_length r1) as Hw1.
    destruct (parse_value f (skip_ws r1)) as [[v r2]|] eqn:Ev; [|discriminate].
    destruct (IHv _ _ Ev) as (Hl & Hf). cbn [snd] in Hl.
    pose proof (skip_ws_length r2) as Hw2.
    destruct (skip_ws r2) as [|d r3] eqn:Ew2; [discriminate|]. cbn [length] in Hw2.
    destruct (d =? 125) eqn:E125.
    { inversion H; subst r. cbn [snd]. split; [lia|].
      intros f' Hf'. destruct f' as [|f']; [lia|].
      rewrite parse_members_eq, E34, Es, Ew0, E58, Hf, Ew2, E125 by lia. reflexivity. }
    destruct (d =? 44) eqn:E44; [|discriminate].
    destruct (parse_members f (skip_ws r3)) as [[kvs rest]|] eqn:Em; [|discriminate].
    inversion H; subst r. cbn [snd].
    destruct (IHm _ _ Em) as (Hl3 & Hf3). cbn [snd] in Hl3.
    pose proof (skip_ws_length r3) as Hw3. split; [lia|].
    intros f' Hf'. destruct f' as [|f']; [lia|].
    rewrite parse_members_eq, E34, Es, Ew0, E58, Hf, Ew2, E125, E44, Hf3 by lia. reflexivity.
Qed.

(* if the scanner succeeds with SOME fuel it succeeds with the fuel json_parse gives it: json_parse = None is a
   syntax error (or a number), never a lack of fuel *)
Theorem parse_value_enough f s r : parse_value f s = Some r -> parse_value (parse_fuel s) s = Some r.
Proof.
  intro H. destruct (proj1 (parse_enough f) s r H) as (_ & Hf). apply Hf. unfold parse_fuel. lia.
Qed.

Theorem json_parse_fuel_free f text v rest :
  parse_value f (skip_ws text) = Some (v, rest) -> skip_ws rest = [] -> json_parse text = Some v.
Proof.
  intros H Hr. unfold json_parse. cbv zeta. rewrite (parse_value_enough _ _ _ H), Hr. reflexivity.
Qed.

(* ---------- white space and the first character of a written value ---------- *)
Lemma skip_ws_nonws c t : is_ws c = false -> skip_ws (c :: t) = c :: t.
Proof. intro H. cbn [skip_ws]. rewrite H. reflexivity. Qed.

Lemma skip_ws_spaces n s : skip_ws (repeat 32 n ++ s) = skip_ws s.
Proof. induction n as [|n IH]; [reflexivity|]. cbn [repeat app]. exact IH. Qed.

Lemma skip_ws_indent lvl s : skip_ws (newline_indent lvl ++ s) = skip_ws s.
Proof. unfold newline_indent. cbn [app]. change (skip_ws (10 :: ?x)) with (skip_ws x). apply skip_ws_spaces. Qed.

(* s starts with a character that is neither white space nor a closing bracket *)
Definition starts_item (s : str) : bool :=
  match s with
  | [] => false
  | c :: _ => negb (is_ws c) && negb (c =? 93) && negb (c =? 125)
  end.

Lemma starts_item_app a b : starts_item a = true -> starts_item (a ++ b) = true.
Proof. destruct a; [discriminate | intro H; exact H]. Qed.

Lemma starts_item_skip s : starts_item s = true -> skip_ws s = s.
Proof.
  destruct s as [|c t]; [discriminate|]. cbn [starts_item]. intro H. btest.
  apply skip_ws_nonws. assumption.
Qed.

Lemma dump_starts_item ascii lvl v : starts_item (dump ascii lvl v) = true.
Proof. destruct v as [s| | | |[|x l]|[|kv kvs]]; reflexivity. Qed.

Lemma join_cons2 sep (a b : str) t : join sep (a :: b :: t) = a ++ sep ++ join sep (b :: t).
Proof. reflexivity. Qed.

Lemma join_starts_item sep a t : starts_item a = true -> starts_item (join sep (a :: t)) = true.
Proof.
  intro H. destruct t as [|b t]; [exact H|]. rewrite join_cons2. apply starts_item_app. exact H.
Qed.

Lemma container_app o c lvl items rest :
  container o c lvl items ++ rest =
  o :: (newline_indent (S lvl) ++ (join (item_sep (S lvl)) items ++ (newline_indent lvl ++ c :: rest))).
Proof.
  unfold container. cbn [app]. rewrite <- !app_assoc. reflexivity.
Qed.

(* ---------- single steps of the parser on well-formed text ---------- *)
Lemma parse_value_string f t r rest :
  scan_str t = Some (r, rest) -> parse_value (S f) (34 :: t) = Some (JS r, rest).
Proof. intro H. rewrite parse_value_eq. cbn [N.eqb Pos.eqb]. rewrite H. reflexivity. Qed.

Lemma parse_value_arr f t X vs rest :
  skip_ws t = X -> starts_item X = true -> parse_elems f X = Some (vs, rest) ->
  parse_value (S f) (91 :: t) = Some (JArr vs, rest).
Proof.
  intros Hw Hh He. rewrite parse_value_eq. cbn [N.eqb Pos.eqb]. rewrite Hw.
  destruct X as [|d t']; [discriminate|]. cbn [starts_item] in Hh. btest.
  replace (d =? 93) with false by (symmetry; apply N.eqb_neq; assumption). rewrite He. reflexivity.
Qed.

Lemma parse_value_obj f t X kvs rest :
  skip_ws t = X -> starts_item X = true -> parse_members f X = Some (kvs, rest) ->
  parse_value (S f) (123 :: t) = Some (JObj (dict_of kvs), rest).
Proof.
  intros Hw Hh He. rewrite parse_value_eq. cbn [N.eqb Pos.eqb]. rewrite Hw.
  destruct X as [|d t']; [discriminate|]. cbn [starts_item] in Hh. btest.
  replace (d =? 125) with false by (symmetry; apply N.eqb_neq; assumption). rewrite He. reflexivity.
Qed.

Lemma parse_elems_last f s v r rest :
  parse_value f s = Some (v, r) -> skip_ws r = 93 :: rest -> parse_elems (S f) s = Some ([v], rest).
Proof. intros H1 H2. rewrite parse_elems_eq, H1, H2. reflexivity. Qed.

Lemma parse_elems_more f s v r r' vs rest :
  parse_value f s = Some (v, r) -> skip_ws r = 44 :: r' -> parse_elems f (skip_ws r') = Some (vs, rest) ->
  parse_elems (S f) s = Some (v :: vs, rest).
Proof. intros H1 H2 H3. rewrite parse_elems_eq, H1, H2. cbn [N.eqb Pos.eqb]. rewrite H3. reflexivity. Qed.

Lemma parse_members_last f t k r r1 v r2 rest :
  scan_str t = Some (k, r) -> skip_ws r = 58 :: r1 -> parse_value f (skip_ws r1) = Some (v, r2) ->
  skip_ws r2 = 125 :: rest -> parse_members (S f) (34 :: t) = Some ([(k, v)], rest).
Proof.
  intros H1 H2 H3 H4. rewrite parse_members_eq. cbn [N.eqb Pos.eqb]. rewrite H1, H2. cbn [N.eqb Pos.eqb].
  rewrite H3, H4. reflexivity.
Qed.

Lemma parse_members_more f t k r r1 v r2 r3 kvs rest :
  scan_str t = Some (k, r) -> skip_ws r = 58 :: r1 -> parse_value f (skip_ws r1) = Some (v, r2) ->
  skip_ws r2 = 44 :: r3 -> parse_members f (skip_ws r3) = Some (kvs, rest) ->
  parse_members (S f) (34 :: t) = Some ((k, v) :: kvs, rest).
Proof.
  intros H1 H2 H3 H4 H5. rewrite parse_members_eq. cbn [N.eqb Pos.eqb]. rewrite H1, H2. cbn [N.eqb Pos.eqb].
  rewrite H3, H4. cbn [N.eqb Pos.eqb]. rewrite H5. reflexivity.
Qed.

(* ---------- the parser on the writer's output ---------- *)
(* enough fuel reads the written value back as readback says, at every nesting level and whatever follows *)
Definition parses (ascii : bool) (v : jv) : Prop :=
  exists f0, forall f lvl rest, (f0 <= f)%nat ->
    parse_value f (dump ascii lvl v ++ rest) = Some (readback ascii v, rest).

Lemma parse_elems_dump ascii l : Forall (parses ascii) l -> forall x, parses ascii x ->
  exists f0, forall f lvl' lvl rest, (f0 <= f)%nat ->
    parse_elems f (join (item_sep lvl') (map (dump ascii lvl') (x :: l)) ++ newline_indent lvl ++ 93 :: rest)
    = Some (map (readback ascii) (x :: l), rest).
Proof.
  induction 1 as [|y l Hy Hl IH]; intros x (fx & Hx).
  - exists (S fx). intros f lvl' lvl rest Hf. destruct f as [|f]; [lia|].
    cbn [map join]. eapply parse_elems_last; [apply Hx; lia|].
    rewrite skip_ws_indent. apply skip_ws_nonws. reflexivity.
  - destruct (IH y Hy) as (fl & Hfl). exists (S (Nat.max fx fl)).
    intros f lvl' lvl rest Hf. destruct f as [|f]; [lia|].
    change (map (dump ascii lvl') (x :: y :: l)) with (dump ascii lvl' x :: map (dump ascii lvl') (y :: l)).
    change (map (dump ascii lvl') (y :: l)) with (dump ascii lvl' y :: map (dump ascii lvl') l).
    rewrite join_cons2. rewrite <- !app_assoc.
    change (map (readback ascii) (x :: y :: l)) with (readback ascii x :: map (readback ascii) (y :: l)).
    eapply parse_elems_more; [apply Hx; lia | unfold item_sep; cbn [app]; apply skip_ws_nonws; reflexivity|].
    rewrite skip_ws_indent.
    change (dump ascii lvl' y :: map (dump ascii lvl') l) with (map (dump ascii lvl') (y :: l)).
    rewrite starts_item_skip.
    + apply Hfl. lia.
    + apply starts_item_app. cbn [map]. apply join_starts_item. apply dump_starts_item.
Qed.

Definition key_wf (ascii : bool) (k : str) : bool := negb ascii || str_valid k.
Definition rb_member (ascii : bool) (kv : str * jv) : str * jv :=
  (str_readback ascii (fst kv), readback ascii (snd kv)).
Definition dump_member (ascii : bool) (lvl : nat) (kv : str * jv) : str :=
  member_text ascii (fst kv, dump ascii lvl (snd kv)).

Lemma dump_member_app ascii lvl kv rest :
  dump_member ascii lvl kv ++ rest =
  34 :: (flat_map (esc_char ascii) (fst kv) ++ 34 :: (58 :: 32 :: (dump ascii lvl (snd kv) ++ rest))).
Proof.
  unfold dump_member, member_text, json_encode_str. cbn [fst snd app].
  rewrite <- !app_assoc. reflexivity.
Qed.

Lemma dump_member_starts_item ascii lvl kv : starts_item (dump_member ascii lvl kv) = true.
Proof. reflexivity. Qed.

Lemma parse_members_dump ascii l :
  Forall (fun kv => parses ascii (snd kv)) l -> Forall (fun kv => key_wf ascii (fst kv) = true) l ->
  forall x, parses ascii (snd x) -> key_wf ascii (fst x) = true ->
  exists f0, forall f lvl' lvl rest, (f0 <= f)%nat ->
    parse_members f (join (item_sep lvl') (map (dump_member ascii lvl') (x :: l)) ++ newline_indent lvl ++ 125 :: rest)
    = Some (map (rb_member ascii) (x :: l), rest).
Proof.
  induction 1 as [|y l Hy Hl IH]; intros Hk x (fx & Hx) Hkx.
  - exists (S fx). intros f lvl' lvl rest Hf. destruct f as [|f]; [lia|].
    cbn [map join]. rewrite dump_member_app.
    eapply parse_members_last.
    + apply scan_str_encode. exact Hkx.
    + apply skip_ws_nonws. reflexivity.
    + change (skip_ws (32 :: ?t)) with (skip_ws t). rewrite starts_item_skip by (apply starts_item_app, dump_starts_item).
      apply Hx. lia.
    + rewrite skip_ws_indent. apply skip_ws_nonws. reflexivity.
  - inversion Hk as [|? ? Hky Hkl]; subst.
    destruct (IH Hkl y Hy Hky) as (fl & Hfl). exists (S (Nat.max fx fl)).
    intros f lvl' lvl rest Hf. destruct f as [|f]; [lia|].
    change (map (dump_member ascii lvl') (x :: y :: l))
      with (dump_member ascii lvl' x :: map (dump_member ascii lvl') (y :: l)).
    change (map (dump_member ascii lvl') (y :: l))
      with (dump_member ascii lvl' y :: map (dump_member ascii lvl') l).
    rewrite join_cons2. rewrite <- !app_assoc. rewrite dump_member_app.
    change (map (rb_member ascii) (x :: y :: l)) with (rb_member ascii x :: map (rb_member ascii) (y :: l)).
    eapply parse_members_more.
    + apply scan_str_encode. exact Hkx.
    + apply skip_ws_nonws. reflexivity.
    + change (skip_ws (32 :: ?t)) with (skip_ws t). rewrite starts_item_skip by (apply starts_item_app, dump_starts_item).
      apply Hx. lia.
    + unfold item_sep. cbn [app]. apply skip_ws_nonws. reflexivity.
    + rewrite skip_ws_indent.
      change (dump_member ascii lvl' y :: map (dump_member ascii lvl') l)
        with (map (dump_member ascii lvl') (y :: l)).
      rewrite starts_item_skip.
      * apply Hfl. lia.
      * apply starts_item_app. cbn [map]. apply join_starts_item. apply dump_member_starts_item.
Qed.

(* ---------- sorting the items by key commutes with rewriting the values ---------- *)
Lemma insert_sorted_map {A B} (g : A -> B) (lebA : A -> A -> bool) (lebB : B -> B -> bool) :
  (forall a b, lebB (g a) (g b) = lebA a b) ->
  forall x l, insert_sorted lebB (g x) (map g l) = map g (insert_sorted lebA x l).
Proof.
  intros Hg x l. induction l as [|y l IH]; [reflexivity|].
  cbn [map insert_sorted]. rewrite Hg. destruct (lebA x y); [reflexivity|].
  cbn [map]. rewrite IH. reflexivity.
Qed.

Lemma sort_map {A B} (g : A -> B) (lebA : A -> A -> bool) (lebB : B -> B -> bool) :
  (forall a b, lebB (g a) (g b) = lebA a b) ->
  forall l, sort lebB (map g l) = map g (sort lebA l).
Proof.
  intros Hg l. induction l as [|x l IH]; [reflexivity|].
  cbn [map]. unfold sort in *. cbn [fold_right]. rewrite IH. apply insert_sorted_map. exact Hg.
Qed.

Lemma sort_by_key_map_snd {A B} (g : str * A -> str * B) :
  (forall kv, fst (g kv) = fst kv) ->
  forall l, sort_by_key fst (map g l) = map g (sort_by_key fst l).
Proof.
  intros Hg l. unfold sort_by_key. apply sort_map. intros a b. rewrite !Hg. reflexivity.
Qed.

Lemma sort_by_key_nonnil {A} (key : A -> str) x l : sort_by_key key (x :: l) <> [].
Proof.
  intro H. pose proof (sort_perm (fun a b => str_leb (key a) (key b)) (x :: l)) as Hp.
  unfold sort_by_key in H. rewrite H in Hp. apply Permutation_nil in Hp. discriminate.
Qed.

Lemma sort_by_key_Forall {A} (key : A -> str) (P : A -> Prop) l :
  Forall P l -> Forall P (sort_by_key key l).
Proof.
  rewrite !Forall_forall. intros H a Ha. apply H. unfold sort_by_key in Ha.
  apply sort_In in Ha. exact Ha.
Qed.

(* ---------- json.loads (json.dumps v) for every value ---------- *)
Lemma jv_all_arr p l : jv_all p (JArr l) = forallb (jv_all p) l.
Proof. reflexivity. Qed.
Lemma jv_all_obj p kvs : jv_all p (JObj kvs) = forallb (fun kv => p (fst kv) && jv_all p (snd kv)) kvs.
Proof. reflexivity. Qed.

Lemma dump_obj ascii lvl kv kvs :
  dump ascii lvl (JObj (kv :: kvs)) =
  container 123 125 lvl (map (dump_member ascii (S lvl)) (sort_by_key fst (kv :: kvs))).
Proof.
  cbn [dump].
  rewrite (sort_by_key_map_snd (fun kv0 : str * jv => let (k, x) := kv0 in (k, dump ascii (S lvl) x)))
    by (intros [k x]; reflexivity).
  rewrite map_map. f_equal. apply map_ext. intros [k x]. reflexivity.
Qed.

Lemma readback_obj ascii kvs :
  readback ascii (JObj kvs) = JObj (dict_of (map (rb_member ascii) (sort_by_key fst kvs))).
Proof.
  cbn [readback].
  rewrite (sort_by_key_map_snd (fun kv0 : str * jv => let (k, x) := kv0 in (k, readback ascii x)))
    by (intros [k x]; reflexivity).
  rewrite map_map. do 2 f_equal. apply map_ext. intros [k x]. reflexivity.
Qed.

Lemma parses_dump ascii v : jv_wf ascii v = true -> parses ascii v.
Proof.
  unfold jv_wf. induction v as [s| | | |l IH|kvs IH] using jv_ind2; intro Hwf.
  - exists 1%nat. intros f lvl rest Hf. destruct f as [|f]; [lia|].
    cbn [dump readback jv_all] in *. unfold json_encode_str. cbn [app]. rewrite <- app_assoc. cbn [app].
    apply parse_value_string. apply scan_str_encode. exact Hwf.
  - exists 1%nat. intros f lvl rest Hf. destruct f as [|f]; [lia|]. reflexivity.
  - exists 1%nat. intros f lvl rest Hf. destruct f as [|f]; [lia|]. reflexivity.
  - exists 1%nat. intros f lvl rest Hf. destruct f as [|f]; [lia|]. reflexivity.
  - rewrite jv_all_arr in Hwf.
    assert (Hl : Forall (parses ascii) l).
    { rewrite forallb_forall in Hwf. rewrite Forall_forall in *. intros x Hx. apply IH; [exact Hx | apply Hwf; exact Hx]. }
    clear IH Hwf. destruct l as [|x l].
    + exists 1%nat. intros f lvl rest Hf. destruct f as [|f]; [lia|]. reflexivity.
    + inversion Hl as [|? ? Hx Hl']; subst.
      destruct (parse_elems_dump ascii l Hl' x Hx) as (f0 & Hf0). exists (S f0).
      intros f lvl rest Hf. destruct f as [|f]; [lia|].
      cbn [dump readback]. rewrite container_app.
      assert (Hh : forall lvl' Y, starts_item (join (item_sep lvl') (map (dump ascii lvl') (x :: l)) ++ Y) = true)
        by (intros; apply starts_item_app; cbn [map]; apply join_starts_item, dump_starts_item).
      eapply parse_value_arr; [rewrite skip_ws_indent; apply starts_item_skip, Hh | apply Hh | apply Hf0; lia].
  - rewrite jv_all_obj in Hwf.
    assert (Hl : Forall (fun kv => parses ascii (snd kv)) kvs /\ Forall (fun kv => key_wf ascii (fst kv) = true) kvs).
    { rewrite forallb_forall in Hwf. rewrite !Forall_forall in *. split; intros x Hx.
      - apply IH; [exact Hx|]. specialize (Hwf x Hx). btest. assumption.
      - specialize (Hwf x Hx). apply andb_true_iff in Hwf. apply Hwf. }
    clear IH Hwf. destruct Hl as (Hl & Hk). destruct kvs as [|kv kvs].
    + exists 1%nat. intros f lvl rest Hf. destruct f as [|f]; [lia|]. reflexivity.
    + unfold parses. rewrite readback_obj.
      apply (sort_by_key_Forall fst) in Hl. apply (sort_by_key_Forall fst) in Hk.
      pose proof (sort_by_key_nonnil fst kv kvs) as Hnn.
      assert (Hd : forall lvl, dump ascii lvl (JObj (kv :: kvs)) =
                     container 123 125 lvl (map (dump_member ascii (S lvl)) (sort_by_key fst (kv :: kvs))))
        by (intro; apply dump_obj).
      destruct (sort_by_key fst (kv :: kvs)) as [|x l']; [exfalso; apply Hnn; reflexivity|]. clear Hnn.
      inversion Hl as [|? ? Hx Hl']; subst. inversion Hk as [|? ? Hkx Hk']; subst.
      destruct (parse_members_dump ascii l' Hl' Hk' x Hx Hkx) as (f0 & Hf0). exists (S f0).
      intros f lvl rest Hf. destruct f as [|f]; [lia|].
      rewrite Hd, container_app.
      assert (Hh : forall lvl' Y, starts_item (join (item_sep lvl') (map (dump_member ascii lvl') (x :: l')) ++ Y) = true)
        by (intros; apply starts_item_app; cbn [map]; apply join_starts_item, dump_member_starts_item).
      eapply parse_value_obj; [rewrite skip_ws_indent; apply starts_item_skip, Hh | apply Hh | apply Hf0; lia].
Qed.

(* json.loads(json.dumps(v, indent=4, sort_keys=True, ensure_ascii=ascii)) = readback ascii v for EVERY value
   made of Python strs *)
Theorem json_parse_dump ascii v : jv_wf ascii v = true ->
  json_parse (json_dump ascii v) = Some (readback ascii v).
Proof.
  intro Hwf. destruct (parses_dump ascii v Hwf) as (f0 & Hf).
  specialize (Hf f0 0%nat [] (le_n _)). rewrite app_nil_r in Hf.
  apply (json_parse_fuel_free f0 _ _ []); [|reflexivity].
  unfold json_dump. rewrite starts_item_skip by apply dump_starts_item. exact Hf.
Qed.

(* ---------- dictionaries with unique keys ---------- *)
Lemma nodupb_NoDup l : nodupb l = true <-> NoDup l.
Proof.
  induction l as [|x t IH]; cbn [nodupb].
  - split; [constructor | reflexivity].
  - rewrite andb_true_iff, negb_true_iff, mem_false, IH. split.
    + intros [H1 H2]. constructor; assumption.
    + intro H. inversion H; subst. split; assumption.
Qed.

Lemma dset_new_key {V} k (v : V) d : ~ In k (map fst d) -> dset k v d = d ++ [(k, v)].
Proof.
  induction d as [|[k' v'] d IH]; intro H; [reflexivity|].
  cbn [dset map fst In app] in *. destruct (str_eqb_spec k k') as [->|Hn]; [exfalso; apply H; left; reflexivity|].
  rewrite IH by (intro Hi; apply H; right; exact Hi). reflexivity.
Qed.

Lemma fold_dset_new_keys {V} (l : list (str * V)) : forall acc, NoDup (map fst (acc ++ l)) ->
  fold_left (fun d kv => dset (fst kv) (snd kv) d) l acc = acc ++ l.
Proof.
  induction l as [|[k v] l IH]; intros acc H; [rewrite app_nil_r; reflexivity|].
  cbn [fold_left fst snd].
  assert (Hk : ~ In k (map fst acc)).
  { rewrite map_app in H. cbn [map fst] in H. apply NoDup_remove_2 in H.
    intro Hi. apply H. apply in_or_app. left. exact Hi. }
  rewrite dset_new_key by exact Hk.
  rewrite IH; rewrite <- app_assoc; [reflexivity | exact H].
Qed.

(* dict(items) is items when the keys are unique *)
Lemma dict_of_unique_keys {V} (l : list (str * V)) : NoDup (map fst l) -> dict_of l = l.
Proof. intro H. unfold dict_of. apply (fold_dset_new_keys l []). exact H. Qed.

(* ---------- the values that survive ---------- *)
Lemma str_readback_ok ascii s : json_rt_ok ascii s = true -> str_readback ascii s = s.
Proof.
  unfold json_rt_ok, str_readback. destruct ascii; cbn [negb orb]; [|reflexivity].
  intro H. btest. apply utf16_join_id. assumption.
Qed.

Lemma jv_all_impl (p q : str -> bool) v :
  (forall s, p s = true -> q s = true) -> jv_all p v = true -> jv_all q v = true.
Proof.
  intro Hpq. induction v as [s| | | |l IH|kvs IH] using jv_ind2; cbn [jv_all]; auto.
  - rewrite !forallb_forall. rewrite Forall_forall in IH. intros H x Hx. apply IH; [exact Hx | apply H; exact Hx].
  - rewrite !forallb_forall. rewrite Forall_forall in IH. intros H x Hx. specialize (H x Hx).
    apply andb_true_iff in H. destruct H as [H1 H2]. apply andb_true_iff. split; [apply Hpq; exact H1|].
    apply IH; [exact Hx | exact H2].
Qed.

Lemma json_rt_ok_wf ascii s : json_rt_ok ascii s = true -> negb ascii || str_valid s = true.
Proof.
  unfold json_rt_ok. destruct ascii; cbn [negb orb]; [|reflexivity]. intro H. btest. assumption.
Qed.

Lemma jv_rt_ok_wf ascii v : jv_rt_ok ascii v = true -> jv_wf ascii v = true.
Proof.
  unfold jv_rt_ok, jv_wf. intro H. apply andb_true_iff in H. destruct H as [_ H].
  revert H. apply jv_all_impl. apply json_rt_ok_wf.
Qed.

Definition sk_member (kv : str * jv) : str * jv := (fst kv, sort_keys (snd kv)).

Lemma sort_keys_obj kvs : sort_keys (JObj kvs) = JObj (map sk_member (sort_by_key fst kvs)).
Proof.
  cbn [sort_keys].
  rewrite (sort_by_key_map_snd (fun kv0 : str * jv => let (k, x) := kv0 in (k, sort_keys x)))
    by (intros [k x]; reflexivity).
  f_equal. apply map_ext. intros [k x]. reflexivity.
Qed.

Lemma sort_by_key_keys_NoDup {A} (l : list (str * A)) :
  NoDup (map fst l) -> NoDup (map fst (sort_by_key fst l)).
Proof.
  intro H. eapply Permutation_NoDup; [|exact H].
  apply Permutation_map. symmetry. apply sort_perm.
Qed.

(* on these values what comes back is the value itself, dictionaries in sorted key order *)
Lemma readback_sort_keys ascii v : jv_rt_ok ascii v = true -> readback ascii v = sort_keys v.
Proof.
  unfold jv_rt_ok. induction v as [s| | | |l IH|kvs IH] using jv_ind2; intro H;
    apply andb_true_iff in H; destruct H as [Hu Ha]; try reflexivity.
  - cbn [readback sort_keys jv_all] in *. rewrite str_readback_ok by exact Ha. reflexivity.
  - cbn [readback sort_keys jv_all jv_keys_unique] in *. f_equal. apply map_ext_in. intros x Hx.
    rewrite Forall_forall in IH. rewrite forallb_forall in Hu, Ha.
    apply IH; [exact Hx|]. rewrite Hu, Ha by exact Hx. reflexivity.
  - rewrite readback_obj, sort_keys_obj. f_equal.
    cbn [jv_keys_unique jv_all] in Hu, Ha. apply andb_true_iff in Hu. destruct Hu as [Hn Hu].
    rewrite Forall_forall in IH. rewrite forallb_forall in Hu, Ha.
    assert (E : map (rb_member ascii) (sort_by_key fst kvs) = map sk_member (sort_by_key fst kvs)).
    { apply map_ext_in. intros kv Hkv. unfold sort_by_key in Hkv. apply sort_In in Hkv.
      specialize (Ha kv Hkv). apply andb_true_iff in Ha. destruct Ha as [Hk Hv].
      unfold rb_member, sk_member. rewrite str_readback_ok by exact Hk.
      rewrite IH; [reflexivity | exact Hkv |]. rewrite (Hu kv Hkv), Hv. reflexivity. }
    rewrite E. apply dict_of_unique_keys.
    rewrite map_map. cbn [sk_member fst].
    change (map (fun x : str * jv => fst x) (sort_by_key fst kvs)) with (map fst (sort_by_key fst kvs)).
    apply sort_by_key_keys_NoDup. apply nodupb_NoDup. exact Hn.
Qed.

(* ---------- the document round trip ---------- *)
Theorem json_doc_roundtrip ascii v : jv_rt_ok ascii v = true ->
  json_parse (json_dump ascii v) = Some (sort_keys v).
Proof.
  intro H. rewrite json_parse_dump by (apply jv_rt_ok_wf; exact H).
  rewrite readback_sort_keys by exact H. reflexivity.
Qed.

(* ensure_ascii=False: unique keys are the only hypothesis *)
Corollary json_doc_roundtrip_raw v : jv_keys_unique v = true ->
  json_parse (json_dump false v) = Some (sort_keys v).
Proof.
  intro H. apply json_doc_roundtrip. unfold jv_rt_ok. rewrite H. cbn [andb].
  clear H. induction v as [s| | | |l IH|kvs IH] using jv_ind2; try reflexivity.
  - cbn [jv_all]. apply forallb_forall. rewrite Forall_forall in IH. exact IH.
  - cbn [jv_all]. apply forallb_forall. rewrite Forall_forall in IH. intros kv Hkv.
    rewrite (IH kv Hkv). reflexivity.
Qed.

(* ---------- the counterexample under ensure_ascii=True: two different keys, one literal ----------
   d = {'\ud800\udc00': 'a', '\U00010000': 'b'};  json.loads(json.dumps(d, indent=4, sort_keys=True)) == {'\U00010000': 'b'} *)
Definition collide_doc : jv := JObj [([0xD800; 0xDC00], JS [97]); ([0x10000], JS [98])].

Theorem json_doc_roundtrip_refuted :
  jv_keys_unique collide_doc = true /\ jv_wf true collide_doc = true /\
  sort_keys collide_doc = collide_doc /\
  json_dump true collide_doc =
    [123; 10; 32; 32; 32; 32; 34; 92; 117; 100; 56; 48; 48; 92; 117; 100; 99; 48; 48; 34; 58; 32; 34; 97; 34; 44;
     10; 32; 32; 32; 32; 34; 92; 117; 100; 56; 48; 48; 92; 117; 100; 99; 48; 48; 34; 58; 32; 34; 98; 34; 10; 125] /\
  json_parse (json_dump true collide_doc) = Some (JObj [([0x10000], JS [98])]) /\
  json_parse (json_dump false collide_doc) = Some collide_doc.
Proof. vm_compute. repeat split. Qed.

Theorem json_doc_roundtrip_unrestricted_refuted :
  ~ (forall ascii v, jv_keys_unique v = true -> jv_wf ascii v = true ->
       json_parse (json_dump ascii v) = Some (sort_keys v)).
Proof. intro H. specialize (H true collide_doc eq_refl eq_refl). vm_compute in H. discriminate. Qed.

(* without a collision the association is still lost: one key, read back as another *)
Theorem json_doc_roundtrip_key_refuted :
  json_parse (json_dump true (JObj [([0xD800; 0xDC00], JTrue)])) = Some (JObj [([0x10000], JTrue)]).
Proof. vm_compute. reflexivity. Qed.

(* ---------- sort_keys: sorts, and leaves sorted values alone ---------- *)
Lemma str_ltb_leb a b : str_ltb a b = true -> str_leb a b = true.
Proof. unfold str_ltb, str_leb. destruct (str_cmp a b); congruence. Qed.

Lemma sort_increasing_id {A} (l : list (str * A)) : increasing (map fst l) = true -> sort_by_key fst l = l.
Proof.
  induction l as [|x l IH]; [reflexivity|]. intro H.
  unfold sort_by_key, sort in *. cbn [fold_right].
  destruct l as [|y l]; [reflexivity|].
  cbn [map increasing] in H. apply andb_true_iff in H. destruct H as [H1 H2].
  rewrite IH by exact H2. cbn [insert_sorted]. rewrite (str_ltb_leb _ _ H1). reflexivity.
Qed.

Theorem sort_keys_sorted_id v : jv_keys_sorted v = true -> sort_keys v = v.
Proof.
  induction v as [s| | | |l IH|kvs IH] using jv_ind2; intro H; try reflexivity.
  - cbn [sort_keys jv_keys_sorted] in *. f_equal. rewrite <- (map_id l) at 2. apply map_ext_in. intros x Hx.
    rewrite Forall_forall in IH. rewrite forallb_forall in H. apply IH; [exact Hx | apply H; exact Hx].
  - rewrite sort_keys_obj. cbn [jv_keys_sorted] in H. apply andb_true_iff in H. destruct H as [H1 H2].
    rewrite sort_increasing_id by exact H1. f_equal. rewrite <- (map_id kvs) at 2. apply map_ext_in.
    intros [k x] Hx. rewrite Forall_forall in IH. rewrite forallb_forall in H2.
    unfold sk_member. pose proof (IH _ Hx (H2 _ Hx)) as E. cbn [fst snd] in *. rewrite E. reflexivity.
Qed.

Lemma sorted_nodup_increasing {A} (l : list (str * A)) :
  Sorted (fun a b => str_leb (fst a) (fst b) = true) l -> NoDup (map fst l) -> increasing (map fst l) = true.
Proof.
  induction 1 as [|a l Hs IH Hh]; intro Hn; [reflexivity|].
  cbn [map] in Hn. inversion Hn as [|? ? Hni Hn']; subst.
  destruct l as [|b l]; [reflexivity|].
  change (increasing (map fst (a :: b :: l))) with (str_ltb (fst a) (fst b) && increasing (map fst (b :: l))).
  rewrite (IH Hn'). rewrite andb_true_r.
  inversion Hh as [|? ? Hab]; subst.
  assert (Hne : fst a <> fst b) by (intro E; apply Hni; left; symmetry; exact E).
  pose proof (str_leb_lt _ _ Hab Hne) as Hlt. unfold slt in Hlt. unfold str_ltb. rewrite Hlt. reflexivity.
Qed.

Lemma sort_by_key_increasing {A} (l : list (str * A)) :
  NoDup (map fst l) -> increasing (map fst (sort_by_key fst l)) = true.
Proof.
  intro H. apply sorted_nodup_increasing; [|apply sort_by_key_keys_NoDup; exact H].
  unfold sort_by_key. apply (sort_sorted _ (fun a b : str * A => str_leb (fst a) (fst b))).
  intros a b. apply str_leb_total.
Qed.

Theorem sort_keys_sorted v : jv_keys_unique v = true -> jv_keys_sorted (sort_keys v) = true.
Proof.
  induction v as [s| | | |l IH|kvs IH] using jv_ind2; intro H; try reflexivity.
  - cbn [sort_keys jv_keys_sorted jv_keys_unique] in *. rewrite forallb_forall in *. rewrite Forall_forall in IH.
    intros y Hy. apply in_map_iff in Hy. destruct Hy as (x & <- & Hx). apply IH; [exact Hx | apply H; exact Hx].
  - rewrite sort_keys_obj. cbn [jv_keys_unique] in H. apply andb_true_iff in H. destruct H as [H1 H2].
    cbn [jv_keys_sorted]. apply andb_true_iff. split.
    + rewrite map_map. cbn [sk_member fst].
      change (map (fun x : str * jv => fst x) (sort_by_key fst kvs)) with (map fst (sort_by_key fst kvs)).
      apply sort_by_key_increasing. apply nodupb_NoDup. exact H1.
    + rewrite forallb_forall in *. rewrite Forall_forall in IH. intros y Hy.
      apply in_map_iff in Hy. destruct Hy as (x & <- & Hx). unfold sort_by_key in Hx. apply sort_In in Hx.
      cbn [sk_member snd]. apply IH; [exact Hx | apply H2; exact Hx].
Qed.

Corollary sort_keys_idem v : jv_keys_unique v = true -> sort_keys (sort_keys v) = sort_keys v.
Proof. intro H. apply sort_keys_sorted_id, sort_keys_sorted. exact H. Qed.

(* ---------- the hypothesis of json_doc_roundtrip is necessary ---------- *)
Lemma fold_dset_keys {V} (l : list (str * V)) : forall acc, NoDup (dkeys acc) ->
  NoDup (dkeys (fold_left (fun d kv => dset (fst kv) (snd kv) d) l acc)) /\
  (forall x, In x (dkeys (fold_left (fun d kv => dset (fst kv) (snd kv) d) l acc)) -> In x (dkeys acc) \/ In x (map fst l)).
Proof.
  induction l as [|[k v] l IH]; intros acc Hn; cbn [fold_left fst snd map].
  - split; [exact Hn | intros x Hx; left; exact Hx].
  - destruct (IH (dset k v acc) (dkeys_dset_nodup k v acc Hn)) as (H1 & H2). split; [exact H1|].
    intros x Hx. destruct (H2 x Hx) as [Hi|Hi].
    + apply dkeys_dset_in in Hi. destruct Hi as [->|Hi]; [right; left; reflexivity | left; exact Hi].
    + right; right; exact Hi.
Qed.

Lemma dict_of_length_nodup {V} (l : list (str * V)) : length (dict_of l) = length l -> NoDup (map fst l).
Proof.
  intro Hlen. destruct (fold_dset_keys l [] (NoDup_nil _)) as (H1 & H2). fold (dict_of l) in H1, H2.
  apply (@NoDup_incl_NoDup _ (dkeys (dict_of l))); [exact H1 | |].
  - unfold dkeys. rewrite !map_length, Hlen. apply le_n.
  - intros x Hx. destruct (H2 x Hx) as [[]|Hi]. exact Hi.
Qed.

Lemma str_readback_inv ascii s : negb ascii || str_valid s = true -> str_readback ascii s = s -> json_rt_ok ascii s = true.
Proof.
  unfold str_readback, json_rt_ok. destruct ascii; cbn [negb orb]; [|reflexivity].
  intros Hv E. rewrite Hv. apply utf16_join_id in E. rewrite E. reflexivity.
Qed.

Lemma readback_eq_inv ascii v : jv_wf ascii v = true ->
  readback ascii v = sort_keys v -> jv_all (json_rt_ok ascii) v = true.
Proof.
  unfold jv_wf. induction v as [s| | | |l IH|kvs IH] using jv_ind2; intros Hw E; try reflexivity.
  - cbn [readback sort_keys jv_all] in *. injection E as E. apply str_readback_inv; assumption.
  - cbn [readback sort_keys jv_all] in *. injection E as E. rewrite map_ext_in_iff in E.
    rewrite forallb_forall in *. rewrite Forall_forall in IH. intros x Hx.
    apply IH; [exact Hx | apply Hw; exact Hx | apply E; exact Hx].
  - rewrite readback_obj, sort_keys_obj in E. injection E as E.
    assert (Hn : NoDup (map fst (map (rb_member ascii) (sort_by_key fst kvs)))).
    { apply dict_of_length_nodup. rewrite E, !map_length. reflexivity. }
    rewrite dict_of_unique_keys in E by exact Hn. rewrite map_ext_in_iff in E.
    cbn [jv_all] in *. rewrite forallb_forall in *. rewrite Forall_forall in IH. intros kv Hkv.
    assert (Hkv' : In kv (sort_by_key fst kvs)) by (unfold sort_by_key; apply sort_In; exact Hkv).
    specialize (E kv Hkv'). unfold rb_member, sk_member in E. injection E as E1 E2.
    specialize (Hw kv Hkv). apply andb_true_iff in Hw. destruct Hw as [Hw1 Hw2].
    rewrite (str_readback_inv ascii _ Hw1 E1). cbn [andb]. apply IH; assumption.
Qed.

(* for Python values (dicts with unique keys, strs of code points) the round trip holds EXACTLY on jv_rt_ok *)
Theorem json_doc_roundtrip_iff ascii v : jv_keys_unique v = true -> jv_wf ascii v = true ->
  (json_parse (json_dump ascii v) = Some (sort_keys v) <-> jv_rt_ok ascii v = true).
Proof.
  intros Hu Hw. split; [|apply json_doc_roundtrip].
  rewrite json_parse_dump by exact Hw. intro E. injection E as E.
  unfold jv_rt_ok. rewrite Hu. cbn [andb]. apply readback_eq_inv; assumption.
Qed.

(* ---------- sorting a dictionary keeps the key -> value association ---------- *)
Lemma dget_In_iff {V} (d : list (str * V)) k v : NoDup (map fst d) -> (dget k d = Some v <-> In (k, v) d).
Proof.
  induction d as [|[k' v'] d IH]; intro Hn; cbn [dget In]; [split; [discriminate | intros []]|].
  cbn [map fst] in Hn. inversion Hn as [|? ? Hni Hn']; subst.
  destruct (str_eqb_spec k k') as [->|Hne].
  - split.
    + intro E. injection E as ->. left. reflexivity.
    + intros [E|Hi]; [injection E as ->; reflexivity|].
      exfalso. apply Hni. apply in_map_iff. exists (k', v). split; [reflexivity | exact Hi].
  - rewrite (IH Hn'). split; [intro Hi; right; exact Hi|].
    intros [E|Hi]; [injection E as E1 E2; exfalso; apply Hne; symmetry; exact E1 | exact Hi].
Qed.

Lemma dget_sort_by_key {V} (d : list (str * V)) k : NoDup (map fst d) -> dget k (sort_by_key fst d) = dget k d.
Proof.
  intro Hn. pose proof (sort_by_key_keys_NoDup d Hn) as Hn'.
  destruct (dget k d) as [v|] eqn:E.
  - apply (dget_In_iff _ _ _ Hn') . unfold sort_by_key. apply sort_In. apply (dget_In_iff _ _ _ Hn). exact E.
  - destruct (dget k (sort_by_key fst d)) as [v'|] eqn:E'; [|reflexivity].
    apply (dget_In_iff _ _ _ Hn') in E'. unfold sort_by_key in E'. apply sort_In in E'.
    apply (dget_In_iff _ _ _ Hn) in E'. congruence.
Qed.

(* ---------- (a) extended prefix maps ---------- *)
Lemma sort_keys_jstrs l : sort_keys (jstrs l) = jstrs l.
Proof. unfold jstrs. cbn [sort_keys]. rewrite map_map. reflexivity. Qed.

Lemma sort_keys_field f : sort_keys (jv_of_field f) = jv_of_field f.
Proof. destruct f; [reflexivity | apply sort_keys_jstrs]. Qed.

Lemma sort_keys_fields d : sort_keys (jv_of_fields d) = jv_of_fields (sort_by_key fst d).
Proof.
  unfold jv_of_fields. rewrite sort_keys_obj.
  rewrite (sort_by_key_map_snd (fun kf : str * field => (fst kf, jv_of_field (snd kf)))) by reflexivity.
  rewrite map_map. f_equal. apply map_ext. intros [k f]. unfold sk_member. cbn [fst snd].
  rewrite sort_keys_field. reflexivity.
Qed.

Lemma sort_keys_epm ds : sort_keys (epm_doc ds) = epm_doc (map (sort_by_key fst) ds).
Proof.
  unfold epm_doc. cbn [sort_keys]. rewrite !map_map. f_equal. apply map_ext. intro d. apply sort_keys_fields.
Qed.

Lemma strs_of_jvs_JS l : strs_of_jvs (map JS l) = Some l.
Proof. induction l as [|s l IH]; [reflexivity|]. cbn [map strs_of_jvs]. rewrite IH. reflexivity. Qed.

Lemma field_of_jv_field f : field_of_jv (jv_of_field f) = Some f.
Proof. destruct f as [s|l]; [reflexivity|]. cbn [jv_of_field jstrs field_of_jv]. rewrite strs_of_jvs_JS. reflexivity. Qed.

Lemma fields_of_jv_fields d : fields_of_jv (jv_of_fields d) = Some d.
Proof.
  unfold jv_of_fields, fields_of_jv. induction d as [|[k f] d IH]; [reflexivity|].
  cbn [map fields_of_kvs fst snd]. rewrite field_of_jv_field, IH. reflexivity.
Qed.

Lemma epm_of_jv_doc ds : epm_of_jv (epm_doc ds) = Some ds.
Proof.
  unfold epm_doc, epm_of_jv. induction ds as [|d ds IH]; [reflexivity|].
  cbn [map opt_map_all]. rewrite fields_of_jv_fields, IH. reflexivity.
Qed.

Lemma forallb_map' {A B} (p : B -> bool) (g : A -> B) l : forallb p (map g l) = forallb (fun x => p (g x)) l.
Proof. induction l as [|x l IH]; [reflexivity|]. cbn [map forallb]. rewrite IH. reflexivity. Qed.
Lemma forallb_ext' {A} (p q : A -> bool) l : (forall x, p x = q x) -> forallb p l = forallb q l.
Proof. intro H. induction l as [|x l IH]; [reflexivity|]. cbn [forallb]. rewrite H, IH. reflexivity. Qed.

Lemma epm_keys_unique ds : jv_keys_unique (epm_doc ds) = epm_ok ds.
Proof.
  unfold epm_doc, epm_ok. cbn [jv_keys_unique]. rewrite forallb_map'. apply forallb_ext'. intro d.
  unfold jv_of_fields. cbn [jv_keys_unique]. rewrite map_map. cbn [fst].
  change (map (fun x : str * field => fst x) d) with (map fst d).
  replace (forallb (fun kv : str * jv => jv_keys_unique (snd kv)) (map (fun kf : str * field => (fst kf, jv_of_field (snd kf))) d))
    with true; [apply andb_true_r|].
  symmetry. apply forallb_forall. intros kv Hkv. apply in_map_iff in Hkv. destruct Hkv as ([k f] & <- & _).
  cbn [snd]. destruct f as [s|l]; [reflexivity|]. cbn [jv_of_field jstrs jv_keys_unique].
  apply forallb_forall. intros x Hx. apply in_map_iff in Hx. destruct Hx as (s & <- & _). reflexivity.
Qed.

(* any ensure_ascii: a list of record dictionaries is read back as the same list, each dictionary sorted by key *)
Theorem epm_doc_roundtrip ascii ds : jv_rt_ok ascii (epm_doc ds) = true ->
  json_parse (json_dump ascii (epm_doc ds)) = Some (epm_doc (map (sort_by_key fst) ds)).
Proof. intro H. rewrite json_doc_roundtrip by exact H. rewrite sort_keys_epm. reflexivity. Qed.

(* what curies does (ensure_ascii=False): no condition on the strs at all *)
Theorem epm_text_roundtrip ds : epm_ok ds = true ->
  epm_read (epm_write ds) = Some (map (sort_by_key fst) ds).
Proof.
  intro H. unfold epm_read, epm_write.
  rewrite json_doc_roundtrip_raw by (rewrite epm_keys_unique; exact H).
  rewrite sort_keys_epm. apply epm_of_jv_doc.
Qed.

(* the same list of dictionaries: same length, and position by position the same key -> value association *)
Corollary epm_text_roundtrip_assoc ds : epm_ok ds = true ->
  exists ds', epm_read (epm_write ds) = Some ds' /\
    Forall2 (fun d d' => increasing (map fst d') = true /\ forall k, dget k d' = dget k d) ds ds'.
Proof.
  intro H. exists (map (sort_by_key fst) ds). split; [apply epm_text_roundtrip; exact H|].
  unfold epm_ok in H. rewrite forallb_forall in H.
  induction ds as [|d ds IH]; [constructor|]. cbn [map]. constructor.
  - assert (Hn : NoDup (map fst d)) by (apply nodupb_NoDup, H; left; reflexivity).
    split; [apply sort_by_key_increasing; exact Hn | intro k; apply dget_sort_by_key; exact Hn].
  - apply IH. intros x Hx. apply H. right. exact Hx.
Qed.

(* ---------- (b) JSON-LD contexts ---------- *)
Lemma term_of_jv_sorted t : term_of_jv (sort_keys (jv_of_term t)) = Some t.
Proof. destruct t; reflexivity. Qed.

Lemma sort_keys_jsonld ctx :
  sort_keys (jsonld_doc ctx) =
  JObj [(k_context, JObj (map (fun kt => (fst kt, sort_keys (jv_of_term (snd kt)))) (sort_by_key fst ctx)))].
Proof.
  unfold jsonld_doc. rewrite sort_keys_obj.
  change (sort_by_key fst [(k_context, JObj (map (fun kt : str * ctx_term => (fst kt, jv_of_term (snd kt))) ctx))])
    with [(k_context, JObj (map (fun kt : str * ctx_term => (fst kt, jv_of_term (snd kt))) ctx))].
  cbn [map]. unfold sk_member at 1. cbn [fst snd]. rewrite sort_keys_obj.
  rewrite (sort_by_key_map_snd (fun kt : str * ctx_term => (fst kt, jv_of_term (snd kt)))) by reflexivity.
  rewrite map_map. reflexivity.
Qed.

Lemma terms_of_kvs_sorted l :
  terms_of_kvs (map (fun kt : str * ctx_term => (fst kt, sort_keys (jv_of_term (snd kt)))) l) = Some l.
Proof.
  induction l as [|[k t] l IH]; [reflexivity|].
  cbn [map terms_of_kvs fst snd]. rewrite term_of_jv_sorted, IH. reflexivity.
Qed.

Lemma jsonld_ok_rt ctx : jsonld_ok ctx = true -> jv_rt_ok true (jsonld_doc ctx) = true.
Proof.
  unfold jsonld_ok, jv_rt_ok, jsonld_doc. intro H. apply andb_true_iff in H. destruct H as [Hn Ha].
  rewrite forallb_forall in Ha.
  cbn [jv_keys_unique jv_all map fst snd forallb].
  change (nodupb [k_context]) with true. change (json_rt_ok true k_context) with true. cbn [andb].
  rewrite !andb_true_r. rewrite map_map. cbn [fst].
  change (map (fun x : str * ctx_term => fst x) ctx) with (map fst ctx). rewrite Hn. cbn [andb].
  apply andb_true_iff. split; apply forallb_forall; intros kv Hkv; apply in_map_iff in Hkv;
    destruct Hkv as ([k t] & <- & Hkt); specialize (Ha _ Hkt); cbn [fst snd] in *.
  - destruct t; reflexivity.
  - apply andb_true_iff in Ha. destruct Ha as [Ha1 Ha2]. rewrite Ha1. cbn [andb].
    destruct t as [s|id]; cbn [jv_of_term jv_all ctx_term_str forallb fst snd] in *; [exact Ha2|].
    rewrite Ha2. reflexivity.
Qed.

(* what curies does (ensure_ascii=True): the context is read back with its terms in sorted order *)
Theorem jsonld_text_roundtrip ctx : jsonld_ok ctx = true ->
  jsonld_read (jsonld_write ctx) = Some (sort_by_key fst ctx).
Proof.
  intro H. unfold jsonld_read, jsonld_write.
  rewrite json_doc_roundtrip by (apply jsonld_ok_rt; exact H).
  rewrite sort_keys_jsonld. unfold jsonld_of_jv. rewrite str_eqb_refl. apply terms_of_kvs_sorted.
Qed.

(* the same term -> value association *)
Corollary jsonld_text_roundtrip_assoc ctx : jsonld_ok ctx = true ->
  exists ctx', jsonld_read (jsonld_write ctx) = Some ctx' /\
    increasing (map fst ctx') = true /\ forall k, dget k ctx' = dget k ctx.
Proof.
  intro H. exists (sort_by_key fst ctx). split; [apply jsonld_text_roundtrip; exact H|].
  unfold jsonld_ok in H. apply andb_true_iff in H. destruct H as [Hn _]. apply nodupb_NoDup in Hn.
  split; [apply sort_by_key_increasing; exact Hn | intro k; apply dget_sort_by_key; exact Hn].
Qed.

(* the hypothesis cannot be dropped: two terms of a context become one *)
Theorem jsonld_text_roundtrip_refuted :
  let ctx := [([0xD800; 0xDC00], CStr [97]); ([0x10000], CStr [98])] in
  nodupb (map fst ctx) = true /\ jsonld_read (jsonld_write ctx) = Some [([0x10000], CStr [98])].
Proof. vm_compute. split; reflexivity. Qed.

(* ---------- what json_parse returns is a Python value: every dictionary has unique keys ---------- *)
Lemma dset_In {V} k (v : V) d x : In x (dset k v d) -> x = (k, v) \/ In x d.
Proof.
  induction d as [|[k' v'] d IH]; cbn [dset In].
  - intros [<-|[]]. left. reflexivity.
  - destruct (str_eqb_spec k k') as [->|Hne]; cbn [In].
    + intros [<-|Hi]; [left; reflexivity | right; right; exact Hi].
    + intros [<-|Hi]; [right; left; reflexivity|]. destruct (IH Hi) as [->|Hd]; [left; reflexivity | right; right; exact Hd].
Qed.

Lemma fold_dset_In {V} (l : list (str * V)) : forall acc x,
  In x (fold_left (fun d kv => dset (fst kv) (snd kv) d) l acc) -> In x acc \/ In x l.
Proof.
  induction l as [|[k v] l IH]; intros acc x Hx; cbn [fold_left fst snd] in Hx; [left; exact Hx|].
  destruct (IH _ _ Hx) as [Hi|Hi]; [|right; right; exact Hi].
  apply dset_In in Hi. destruct Hi as [->|Hi]; [right; left; reflexivity | left; exact Hi].
Qed.

Lemma dict_of_In {V} (l : list (str * V)) x : In x (dict_of l) -> In x l.
Proof. intro H. apply fold_dset_In in H. destruct H as [[]|H]. exact H. Qed.

Lemma dict_of_keys_NoDup {V} (l : list (str * V)) : NoDup (map fst (dict_of l)).
Proof. apply (fold_dset_keys l [] (NoDup_nil _)). Qed.

Lemma parse_keys_unique f :
  (forall s v r, parse_value f s = Some (v, r) -> jv_keys_unique v = true) /\
  (forall s vs r, parse_elems f s = Some (vs, r) -> forallb jv_keys_unique vs = true) /\
  (forall s kvs r, parse_members f s = Some (kvs, r) -> forallb (fun kv => jv_keys_unique (snd kv)) kvs = true).
Proof.
  induction f as [|f (IHv & IHe & IHm)]; [repeat split; discriminate|].
  split; [|split].
  - intros s v r H. rewrite parse_value_eq in H.
    destruct s as [|c t]; [discriminate|].
    destruct (c =? 34).
    { destruct (scan_str t) as [[r0 rest]|]; [|discriminate]. injection H as <- _. reflexivity. }
    destruct (c =? 123).
    { destruct (skip_ws t) as [|d t']; [discriminate|].
      destruct (d =? 125); [injection H as <- _; reflexivity|].
      destruct (parse_members f (d :: t')) as [[kvs rest]|] eqn:Em; [|discriminate].
      injection H as <- _. cbn [jv_keys_unique]. apply andb_true_iff. split.
      - apply nodupb_NoDup. apply dict_of_keys_NoDup.
      - specialize (IHm _ _ _ Em). rewrite forallb_forall in *. intros x Hx. apply IHm. apply dict_of_In. exact Hx. }
    destruct (c =? 91).
    { destruct (skip_ws t) as [|d t']; [discriminate|].
      destruct (d =? 93); [injection H as <- _; reflexivity|].
      destruct (parse_elems f (d :: t')) as [[vs rest]|] eqn:Ee; [|discriminate].
      injection H as <- _. cbn [jv_keys_unique]. exact (IHe _ _ _ Ee). }
    destruct (prefixb lit_null (c :: t)); [injection H as <- _; reflexivity|].
    destruct (prefixb lit_true (c :: t)); [injection H as <- _; reflexivity|].
    destruct (prefixb lit_false (c :: t)); [injection H as <- _; reflexivity|].
    discriminate.
  - intros s vs r H. rewrite parse_elems_eq in H.
    destruct (parse_value f s) as [[v r0]|] eqn:Ev; [|discriminate].
    destruct (skip_ws r0) as [|d r']; [discriminate|].
    destruct (d =? 93); [injection H as <- _; cbn [forallb]; rewrite (IHv _ _ _ Ev); reflexivity|].
    destruct (d =? 44); [|discriminate].
    destruct (parse_elems f (skip_ws r')) as [[vs' rest]|] eqn:Ee; [|discriminate].
    injection H as <- _. cbn [forallb]. rewrite (IHv _ _ _ Ev), (IHe _ _ _ Ee). reflexivity.
  - intros s kvs r H. rewrite parse_members_eq in H.
    destruct s as [|q t]; [discriminate|].
    destruct (q =? 34); [|discriminate].
    destruct (scan_str t) as [[k r0]|]; [|discriminate].
    destruct (skip_ws r0) as [|col r1]; [discriminate|]. destruct (col =? 58); [|discriminate].
    destruct (parse_value f (skip_ws r1)) as [[v r2]|] eqn:Ev; [|discriminate].
    destruct (skip_ws r2) as [|d r3]; [discriminate|].
    destruct (d =? 125); [injection H as <- _; cbn [forallb snd]; rewrite (IHv _ _ _ Ev); reflexivity|].
    destruct (d =? 44); [|discriminate].
    destruct (parse_members f (skip_ws r3)) as [[kvs' rest]|] eqn:Em; [|discriminate].
    injection H as <- _. cbn [forallb snd]. rewrite (IHv _ _ _ Ev), (IHm _ _ _ Em). reflexivity.
Qed.

Theorem json_parse_keys_unique text v : json_parse text = Some v -> jv_keys_unique v = true.
Proof.
  unfold json_parse. cbv zeta.
  destruct (parse_value (parse_fuel (skip_ws text)) (skip_ws text)) as [[v' rest]|] eqn:E; [|discriminate].
  destruct (skip_ws rest); [|discriminate]. intro H. injection H as <-.
  exact (proj1 (parse_keys_unique _) _ _ _ E).
Qed.

(* ---------- bridge: the records / terms of the abstract models through the text ---------- *)
From Curies.model Require Conv Val Loaders Writers.
From Curies.proofs Require WritersFacts.

Lemma jget_dget k d : Writers.jget k d = dget k d.
Proof. induction d as [|[k' v] d IH]; [reflexivity|]. cbn [Writers.jget dget]. rewrite IH. reflexivity. Qed.

Lemma record_to_dict_keys r : nodupb (map fst (Writers.record_to_dict r)) = true.
Proof. destruct r as [p u ps us pat]. destruct ps, us, pat; reflexivity. Qed.

Lemma dict_fields_inv d : dict_of_fields (fields_of_dict d) = d.
Proof.
  unfold dict_of_fields, fields_of_dict. rewrite map_map. rewrite <- (map_id d) at 2. apply map_ext.
  intros [k [s|l]]; reflexivity.
Qed.

Lemma dict_of_fields_sort d : dict_of_fields (sort_by_key fst d) = sort_by_key fst (dict_of_fields d).
Proof. unfold dict_of_fields. symmetry. apply sort_by_key_map_snd. reflexivity. Qed.

Lemma record_of_dict_sorted d : NoDup (map fst d) ->
  Writers.record_of_dict (sort_by_key fst d) = Writers.record_of_dict d.
Proof.
  intro Hn. unfold Writers.record_of_dict. rewrite !jget_dget, !dget_sort_by_key by exact Hn. reflexivity.
Qed.

(* the records written as an extended prefix map text and loaded again: every record, its synonym lists sorted
   (WritersFacts.epm_roundtrip, now through the JSON text) *)
Theorem epm_records_roundtrip rs : epm_records_read (epm_records_write rs) = Some (map Writers.normalise rs).
Proof.
  unfold epm_records_read, epm_records_write.
  rewrite epm_text_roundtrip.
  - rewrite !map_map. rewrite <- WritersFacts.epm_roundtrip_all. f_equal. apply map_ext. intro r.
    rewrite dict_of_fields_sort, dict_fields_inv. apply record_of_dict_sorted.
    apply nodupb_NoDup, record_to_dict_keys.
  - unfold epm_ok. rewrite forallb_map'. apply forallb_forall. intros r _.
    unfold fields_of_dict. rewrite map_map. cbn [fst]. apply record_to_dict_keys.
Qed.

Lemma ctx_of_terms_of_ctx cctx : ctx_of_terms (terms_of_ctx cctx) = Some cctx.
Proof.
  unfold ctx_of_terms, terms_of_ctx. induction cctx as [|[k t] l IH]; [reflexivity|].
  cbn [map opt_map_all fst snd]. rewrite IH. destruct t; reflexivity.
Qed.

Lemma terms_of_ctx_of_terms ctx : forall cctx, ctx_of_terms ctx = Some cctx -> terms_of_ctx cctx = ctx.
Proof.
  unfold ctx_of_terms, terms_of_ctx. induction ctx as [|[k t] l IH]; intros cctx H.
  - injection H as <-. reflexivity.
  - cbn [opt_map_all fst snd] in H.
    destruct (ctx_term_of_term t) as [ct|] eqn:Et; [|discriminate]. cbn [option_map] in H.
    destruct (opt_map_all _ l) as [r|] eqn:Er; [|discriminate]. injection H as <-.
    cbn [map fst snd]. rewrite (IH r eq_refl). f_equal.
    destruct t; inversion Et; reflexivity.
Qed.

(* a context of Loaders terms written as JSON-LD and loaded again: the same items, sorted by term *)
Theorem jsonld_terms_roundtrip ctx cctx : ctx_of_terms ctx = Some cctx -> jsonld_ok cctx = true ->
  option_map terms_of_ctx (jsonld_read (jsonld_write cctx)) = Some (sort_by_key fst ctx).
Proof.
  intros Hc Hok. rewrite jsonld_text_roundtrip by exact Hok. cbn [option_map]. f_equal.
  rewrite <- (terms_of_ctx_of_terms ctx cctx Hc). unfold terms_of_ctx. symmetry.
  apply sort_by_key_map_snd. reflexivity.
Qed.

Print Assumptions scan_str_iff.
Print Assumptions parse_value_enough.
Print Assumptions json_parse_fuel_free.
Print Assumptions json_parse_dump.
Print Assumptions json_doc_roundtrip.
Print Assumptions json_doc_roundtrip_raw.
Print Assumptions json_doc_roundtrip_iff.
Print Assumptions json_doc_roundtrip_refuted.
Print Assumptions json_doc_roundtrip_unrestricted_refuted.
Print Assumptions json_doc_roundtrip_key_refuted.
Print Assumptions sort_keys_sorted_id.
Print Assumptions sort_keys_sorted.
Print Assumptions sort_keys_idem.
Print Assumptions epm_doc_roundtrip.
Print Assumptions epm_text_roundtrip.
Print Assumptions epm_text_roundtrip_assoc.
Print Assumptions jsonld_text_roundtrip.
Print Assumptions jsonld_text_roundtrip_assoc.
Print Assumptions jsonld_text_roundtrip_refuted.
Print Assumptions json_parse_keys_unique.
Print Assumptions epm_records_roundtrip.
Print Assumptions jsonld_terms_roundtrip.

(* The executable predicate P_C10 accepts the model's own observation (model_hobs) on every case: the link between the
   C10 frame / owned theorems (HeapFacts.v) and what the run evaluates. *)
From Coq Require Import Lia List Bool Arith ZArith.
From Curies.model Require Import Str PyData Trie Conv Query Val Answer Spec CheckQ Mutate Reconcile CheckR Discovery Heap CheckH.
From Curies.proofs Require Import StrFacts CheckFacts HeapFacts.
Import ListNotations.

(* a step of the observation: a list of flags, all of them 1 *)
Definition good_step (s : val) : bool :=
  match s with VList fl => forallb (val_eqb (VInt 1)) fl | _ => false end.

Definition hflags (h0 : heap) (Cs : list hconv) (h : heap) : val :=
  VList (map (fun C => vbool (records_eqb (view h C) (view h0 C))) Cs).

(* every address of a laid-out input is below the end of the layout *)
Lemma layout_bound ins : forall base C a, In C (layout ins base) -> In a C -> a < base + length (concat ins).
Proof.
  induction ins as [|rs rest IH]; intros base C a HC Ha; cbn [layout] in HC.
  - destruct HC.
  - cbn [concat]. rewrite app_length. destruct HC as [<-|HC].
    + apply in_seq in Ha. lia.
    + specialize (IH (base + length rs) C a HC Ha). lia.
Qed.

Lemma records_eqb_refl a : records_eqb a a = true.
Proof. unfold records_eqb. apply val_eqb_refl. Qed.

Lemma hflags_good h0 Cs h : frame (length h0) h0 h -> (forall C a, In C Cs -> In a C -> a < length h0) ->
  good_step (hflags h0 Cs h) = true.
Proof.
  intros F B. unfold good_step, hflags. apply forallb_forall. intros v Hv. apply in_map_iff in Hv as (C & <- & HC).
  rewrite (inputs_unchanged (length h0) h0 h C F (fun a Ha => B C a HC Ha)). rewrite records_eqb_refl. reflexivity.
Qed.

(* the history of follow-up steps: every recorded step is good, and the result still owns only fresh cells *)
Lemma follow_history fc h0 Cs (B : forall C a, In C Cs -> In a C -> a < length h0) fol :
  forall (acc : (heap * hconv) * list val),
    frame (length h0) h0 (fst (fst acc)) -> owned (length h0) (snd (fst acc)) (fst (fst acc)) ->
    forallb good_step (snd acc) = true ->
    forallb good_step
      (snd (fold_left (fun acc op => let hr := follow_step fc (fst acc) op in (hr, snd acc ++ [hflags h0 Cs (fst hr)]))
                      fol acc)) = true.
Proof.
  induction fol as [|op fol IH]; intros acc F O G; cbn [fold_left]; auto.
  apply IH; cbn [fst snd].
  - apply (follow_frame fc (length h0) h0 [op] (fst acc) F O).
  - apply (follow_frame fc (length h0) h0 [op] (fst acc) F O).
  - rewrite forallb_app, G. cbn [forallb]. rewrite hflags_good; auto.
    apply (follow_frame fc (length h0) h0 [op] (fst acc) F O).
Qed.

(* every derivation of the driver allocates fresh cells and writes only to them *)
Lemma h_derive_frame fc k h0 Cs cs h1 R : h_derive fc k h0 Cs cs = Val (h1, R) ->
  frame (length h0) h0 h1 /\ owned (length h0) R h1.
Proof.
  unfold h_derive. destruct (rc_op k) as [sens|P|m|m|m].
  - apply h_chain_frame.
  - destruct Cs as [|C Cs']; [discriminate|]. intro H. pose proof (h_sub_frame h0 C P) as S.
    destruct (h_sub h0 C P) as [h' R']. inversion H; subst. exact S.
  - destruct Cs as [|C Cs']; [discriminate|]. destruct cs as [|c cs']; [discriminate|].
    destruct (order_curie_remapping c m) as [ordering|e]; [|discriminate]. intro H.
    match type of H with Val (h_remap ?h ?C ?f) = _ => pose proof (h_remap_frame h C f) as S; destruct (h_remap h C f) as [h' R'] end.
    inversion H; subst. exact S.
  - destruct Cs as [|C Cs']; [discriminate|]. destruct cs as [|c cs']; [discriminate|].
    destruct (remap_uri_records c m) as [x|e]; [|discriminate]. intro H.
    match type of H with Val (h_remap ?h ?C ?f) = _ => pose proof (h_remap_frame h C f) as S; destruct (h_remap h C f) as [h' R'] end.
    inversion H; subst. exact S.
  - destruct Cs as [|C Cs']; [discriminate|]. destruct cs as [|c cs']; [discriminate|]. intro H.
    match type of H with Val (h_remap ?h ?C ?f) = _ => pose proof (h_remap_frame h C f) as S; destruct (h_remap h C f) as [h' R'] end.
    inversion H; subst. exact S.
Qed.

Lemma owned_not_shared n R h : owned n R h -> existsb (fun a => Nat.ltb a n) R = false.
Proof.
  intro O. destruct (existsb (fun a => Nat.ltb a n) R) eqn:E; auto.
  apply existsb_exists in E as (a & Ha & Hlt). apply Nat.ltb_lt in Hlt. specialize (O a Ha). lia.
Qed.

Lemma P_C10_shape c st sh : P_C10 (VList [VInt c; VList st; VInt sh]) = forallb good_step st.
Proof. reflexivity. Qed.

(* the hypothesis [input_convs k = Val cs] is not even needed *)
Theorem P_C10_model_any : forall (k : rcase) (cs : list conv) (fol : list (record * bool * bool)) (disc : bool),
  P_C10 (model_hobs k cs fol disc) = true.
Proof.
  intros k cs fol disc. unfold model_hobs. cbv zeta.
  set (fc := fold_of (rc_fold k)). set (ins' := map recs cs). set (h0 := concat ins'). set (Cs := layout ins' 0).
  assert (B: forall C a, In C Cs -> In a C -> a < length h0).
  { intros C a HC Ha. apply (layout_bound ins' 0 C a HC Ha). }
  assert (G0: good_step (hflags h0 Cs h0) = true) by (apply hflags_good; auto; apply frame_refl).
  destruct disc.
  - rewrite P_C10_shape. cbn [Z.eqb andb].
    apply (follow_history fc h0 Cs B fol ((h0, []), [hflags h0 Cs h0])); cbn [fst snd].
    + apply frame_refl.
    + intros a [].
    + cbn [forallb]. apply andb_true_intro; split; [exact G0|reflexivity].
  - destruct (h_derive fc k h0 Cs cs) as [[h1 R]|e] eqn:E.
    + destruct (h_derive_frame fc k h0 Cs cs h1 R E) as [F O].
      assert (G1: good_step (hflags h0 Cs h1) = true) by (apply hflags_good; auto).
      destruct (mk_conv true [58%N] (view h1 R)) as [c|e].
      * rewrite (owned_not_shared (length h0) R h1 O). change (vbool false) with (VInt 0). rewrite P_C10_shape. cbn [Z.eqb andb].
        apply (follow_history fc h0 Cs B fol ((h1, R), [hflags h0 Cs h1])); cbn [fst snd]; auto.
        cbn [forallb]. apply andb_true_intro; split; [exact G1|reflexivity].
      * rewrite P_C10_shape. cbn [Z.eqb andb forallb]. apply andb_true_intro; split; [exact G1|reflexivity].
    + rewrite P_C10_shape. cbn [Z.eqb andb forallb]. apply andb_true_intro; split; [exact G0|reflexivity].
Qed.

Theorem P_C10_model : forall (k : rcase) (cs : list conv) (fol : list (record * bool * bool)) (disc : bool),
  input_convs k = Val cs -> P_C10 (model_hobs k cs fol disc) = true.
Proof. intros k cs fol disc _. apply P_C10_model_any. Qed.

Print Assumptions P_C10_model.

(* C01: consequences of L_parse_uri -- when compression succeeds, and independence of the record order. *)
From Coq Require Import Lia Permutation.
From Curies.model Require Import Str PyData Trie Conv Query Val Answer Spec.
From Curies.proofs Require Import StrFacts TrieFacts DictFacts IndexFacts QueryFacts.

Lemma is_uri_iff d rs c u : mk_conv true d rs = Val c ->
  (is_uri c u = true <-> exists r p, In r rs /\ In p (all_uris r) /\ prefixb p u = true).
Proof.
  intro Hc. rewrite (A_is_uri _ _ _ Hc). unfold sp_is_uri. split.
  - destruct (longest_match rs u) as [[p r]|] eqn:E; [|discriminate]. intros _.
    apply longest_match_some in E as (A & B & C & _). eauto.
  - intros (r & p & A & B & C). destruct (longest_match rs u) as [[p' r']|] eqn:E; auto.
    pose proof (longest_match_none _ _ E _ _ A B). congruence.
Qed.

(* the naive specification does not depend on the order of the records *)
Lemma longest_match_perm rs rs' u : one_owner all_uris rs -> (forall r, In r rs <-> In r rs') ->
  longest_match rs' u = longest_match rs u.
Proof.
  intros Hu E.
  destruct (longest_match rs u) as [[p r]|] eqn:E1; destruct (longest_match rs' u) as [[p' r']|] eqn:E2; auto.
  - apply longest_match_some in E1 as (A & B & C & M). apply longest_match_some in E2 as (A' & B' & C' & M').
    assert (length p = length p').
    { apply Nat.le_antisymm; [apply (M' p r); auto; apply E; auto | apply (M p' r'); auto; apply E; auto]. }
    assert (p' = p) by (eapply prefixb_same_len; eauto). subst p'.
    f_equal. f_equal. apply (Hu r' r p); auto. apply E; auto.
  - apply longest_match_some in E1 as (A & B & C & M). eapply longest_match_none in E2; eauto; [congruence|apply E; auto].
  - apply longest_match_some in E2 as (A & B & C & M). eapply longest_match_none in E1; eauto; [congruence|apply E; auto].
Qed.

Lemma spec_answer_perm d rs rs' q : one_owner all_prefixes rs -> one_owner all_uris rs ->
  (forall r, In r rs <-> In r rs') -> conv_query q = true -> spec_answer rs' d q = spec_answer rs d q.
Proof.
  intros Hp Hu E Hq.
  assert (O: forall p, owner_by_prefix rs' p = owner_by_prefix rs p) by (intro p; apply owner_perm; auto).
  assert (L: forall u, longest_match rs' u = longest_match rs u) by (intro u; apply longest_match_perm; auto).
  destruct q; simpl in *; try discriminate;
    unfold sp_parse_uri, sp_compress, sp_is_uri, sp_parse_curie, sp_expand, sp_is_curie, sp_expand_all, sp_parse,
           sp_std_prefix, sp_std_curie, sp_std_uri, sp_expand_pair, sp_expand_pair_all, sp_parse_uri, sp_parse_curie, sp_expand;
    repeat (first [ reflexivity | rewrite O | rewrite L
      | match goal with |- context [match partition ?a ?b with _ => _ end] => destruct (partition a b) as [[? ?]|] end
      | match goal with |- context [match longest_match ?a ?b with _ => _ end] => destruct (longest_match a b) as [[? ?]|] end
      | match goal with |- context [match owner_by_prefix rs ?b with _ => _ end] => destruct (owner_by_prefix rs b) end ]; simpl).
Qed.

Theorem order_irrelevant d rs rs' c c' q : Permutation rs rs' ->
  mk_conv true d rs = Val c -> mk_conv true d rs' = Val c' -> conv_query q = true -> answer c' q = answer c q.
Proof.
  intros P Hc Hc' Hq. rewrite (answer_spec _ _ _ Hc q Hq), (answer_spec _ _ _ Hc' q Hq).
  apply spec_answer_perm; auto; [eapply own_p; eauto | eapply own_u; eauto |].
  intro r. split; apply Permutation_in; auto. symmetry; auto.
Qed.

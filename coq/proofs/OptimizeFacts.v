(* _optimize_node: the source's order of operations, idempotence, "VALUES first" everywhere, nothing but Join operands moves. *)
From Coq Require Import Lia Permutation.
From Curies.model Require Import Str Val Optimize.
From Curies.proofs Require Import StrFacts.

Scheme alg_ind2 := Induction for alg Sort Prop
  with fields_ind2 := Induction for fields Sort Prop.
Combined Scheme alg_fields_ind from alg_ind2, fields_ind2.

Lemma aname_opt a : aname (opt a) = aname a.
Proof. destruct a; reflexivity. Qed.

Lemma p1_neq_p2 : str_eqb k_p1 k_p2 = false.  Proof. reflexivity. Qed.
Lemma p2_neq_p1 : str_eqb k_p2 k_p1 = false.  Proof. reflexivity. Qed.

Lemma fget_opt_fields k fs : fget k (opt_fields fs) = option_map opt (fget k fs).
Proof.
  induction fs as [|k' a r IH|k' t r IH]; cbn [opt_fields fget]; auto.
  - destruct (str_eqb k k'); auto.
  - destruct (str_eqb k k'); auto.
Qed.

Lemma should_swap_opt n fs : should_swap n (opt_fields fs) = should_swap n fs.
Proof.
  unfold should_swap. rewrite !fget_opt_fields.
  destruct (fget k_p1 fs) as [a1|], (fget k_p2 fs) as [a2|]; cbn [option_map]; auto.
  rewrite !aname_opt. reflexivity.
Qed.

Lemma opt_fields_fset k v fs : opt_fields (fset k v fs) = fset k (opt v) (opt_fields fs).
Proof.
  induction fs as [|k' a r IH|k' t r IH]; cbn [opt_fields fset]; auto.
  - destruct (str_eqb k k'); cbn [opt_fields]; [reflexivity|rewrite IH; reflexivity].
  - destruct (str_eqb k k'); cbn [opt_fields]; [reflexivity|rewrite IH; reflexivity].
Qed.

(* the source's order: swap the two operands of the node, then optimise the children *)
Theorem opt_code_order n fs : opt (ANode n fs) = ANode n (opt_fields (swap_if n fs)).
Proof.
  cbn [opt]. f_equal. unfold swap_if. rewrite should_swap_opt.
  destruct (should_swap n fs) eqn:S; [|reflexivity].
  rewrite !fget_opt_fields.
  destruct (fget k_p1 fs) as [a1|], (fget k_p2 fs) as [a2|]; cbn [option_map]; auto.
  rewrite !opt_fields_fset. reflexivity.
Qed.

(* ---- lookups after an update ---- *)
Lemma fget_fset_same k v fs a : fget k fs = Some a -> fget k (fset k v fs) = Some v.
Proof.
  induction fs as [|k' b r IH|k' t r IH]; cbn [fget fset]; intro H; [discriminate| |].
  - destruct (str_eqb k k') eqn:E; cbn [fget]; rewrite E; auto.
  - destruct (str_eqb k k') eqn:E; [discriminate|]. cbn [fget]. rewrite E. auto.
Qed.
Lemma fget_fset_other k k' v fs : str_eqb k k' = false -> fget k (fset k' v fs) = fget k fs.
Proof.
  intro N. induction fs as [|k2 b r IH|k2 t r IH]; cbn [fget fset]; auto.
  - destruct (str_eqb k' k2) eqn:E; cbn [fget].
    + apply str_eqb_eq in E. subst k2. rewrite N. reflexivity.
    + destruct (str_eqb k k2); auto.
  - destruct (str_eqb k' k2) eqn:E; cbn [fget].
    + apply str_eqb_eq in E. subst k2. rewrite N. reflexivity.
    + destruct (str_eqb k k2); auto.
Qed.

Lemma should_swap_inv n fs : should_swap n fs = true ->
  exists a1 a2, fget k_p1 fs = Some a1 /\ fget k_p2 fs = Some a2 /\
                str_eqb (aname a1) multiset_name = false /\ str_eqb (aname a2) multiset_name = true.
Proof.
  unfold should_swap. intro H. apply andb_true_iff in H as [_ H].
  destruct (fget k_p1 fs) as [a1|]; [|discriminate]. destruct (fget k_p2 fs) as [a2|]; [|discriminate].
  apply andb_true_iff in H as [H1 H2]. apply negb_true_iff in H1. eauto 6.
Qed.

(* after the swap the test fails: the node is never swapped twice *)
Lemma should_swap_after n fs : should_swap n (swap_if n fs) = false.
Proof.
  unfold swap_if. destruct (should_swap n fs) eqn:S; [|exact S].
  destruct (should_swap_inv _ _ S) as (a1 & a2 & G1 & G2 & N1 & N2). rewrite G1, G2.
  unfold should_swap.
  assert (E1: fget k_p1 (fset k_p2 a1 (fset k_p1 a2 fs)) = Some a2).
  { rewrite fget_fset_other by exact p1_neq_p2. eapply fget_fset_same; eauto. }
  assert (E2: fget k_p2 (fset k_p2 a1 (fset k_p1 a2 fs)) = Some a1).
  { eapply fget_fset_same. rewrite fget_fset_other by exact p2_neq_p1. eauto. }
  rewrite E1, E2, N2. cbn [negb andb]. apply andb_false_r.
Qed.
Lemma swap_if_fixed n fs : should_swap n fs = false -> swap_if n fs = fs.
Proof. unfold swap_if. intros ->. reflexivity. Qed.

(* ---- idempotence ---- *)
Lemma fixed_child k fs b : opt_fields fs = fs -> fget k fs = Some b -> opt b = b.
Proof.
  induction fs as [|k' a r IH|k' t r IH]; cbn [opt_fields fget]; intros E G; [discriminate| |].
  - injection E as E1 E2. destruct (str_eqb k k'); [congruence|auto].
  - injection E as E2. destruct (str_eqb k k'); [discriminate|auto].
Qed.
Lemma opt_fields_swap_fixed n G : opt_fields G = G -> opt_fields (swap_if n G) = swap_if n G.
Proof.
  intro E. unfold swap_if. destruct (should_swap n G) eqn:S; [|exact E].
  destruct (should_swap_inv _ _ S) as (a1 & a2 & G1 & G2 & _ & _). rewrite G1, G2.
  rewrite !opt_fields_fset, E, (fixed_child _ _ _ E G1), (fixed_child _ _ _ E G2). reflexivity.
Qed.

Lemma opt_idem_mut : (forall a, opt (opt a) = opt a) /\ (forall fs, opt_fields (opt_fields fs) = opt_fields fs).
Proof.
  apply alg_fields_ind.
  - intros n fs IH. cbn [opt]. f_equal.
    rewrite (opt_fields_swap_fixed n _ IH). apply swap_if_fixed, should_swap_after.
  - reflexivity.
  - intros k a IHa r IHr. cbn [opt_fields]. rewrite IHa, IHr. reflexivity.
  - intros k t r IHr. cbn [opt_fields]. rewrite IHr. reflexivity.
Qed.
Theorem opt_idempotent a : opt (opt a) = opt a.
Proof. apply opt_idem_mut. Qed.

(* ---- VALUES first, everywhere ---- *)
Lemma vf_child k fs a : values_first_fields fs = true -> fget k fs = Some a -> values_first a = true.
Proof.
  induction fs as [|k' b r IH|k' t r IH]; cbn [values_first_fields fget]; intros V G; [discriminate| |].
  - apply andb_true_iff in V as [V1 V2]. destruct (str_eqb k k'); [congruence|auto].
  - destruct (str_eqb k k'); [discriminate|auto].
Qed.
Lemma vf_fset k v fs : values_first v = true -> values_first_fields fs = true -> values_first_fields (fset k v fs) = true.
Proof.
  intros Vv. induction fs as [|k' b r IH|k' t r IH]; cbn [values_first_fields fset]; intro V; auto.
  - apply andb_true_iff in V as [V1 V2]. destruct (str_eqb k k'); cbn [values_first_fields]; rewrite ?Vv, ?V1, ?V2, ?IH; auto.
  - destruct (str_eqb k k'); cbn [values_first_fields]; rewrite ?Vv, ?V, ?IH; auto.
Qed.
Lemma vf_swap n G : values_first_fields G = true -> values_first_fields (swap_if n G) = true.
Proof.
  intro V. unfold swap_if. destruct (should_swap n G) eqn:S; [|exact V].
  destruct (should_swap_inv _ _ S) as (a1 & a2 & G1 & G2 & _ & _). rewrite G1, G2.
  apply vf_fset; [eapply vf_child; eauto|]. apply vf_fset; [eapply vf_child; eauto|exact V].
Qed.
Lemma values_first_mut : (forall a, values_first (opt a) = true) /\ (forall fs, values_first_fields (opt_fields fs) = true).
Proof.
  apply alg_fields_ind.
  - intros n fs IH. cbn [opt values_first]. rewrite should_swap_after. cbn [negb andb]. apply vf_swap, IH.
  - reflexivity.
  - intros k a IHa r IHr. cbn [opt_fields values_first_fields]. rewrite IHa, IHr. reflexivity.
  - intros k t r IHr. cbn [opt_fields values_first_fields]. exact IHr.
Qed.
Theorem opt_values_first a : values_first (opt a) = true.
Proof. apply values_first_mut. Qed.

(* ---- only the order of Join operands changes: same node names and same opaque content, same field keys ---- *)
Lemma fset_leaves k v fs a : fget k fs = Some a ->
  Permutation (leaves v ++ leaves_fields fs) (leaves a ++ leaves_fields (fset k v fs)).
Proof.
  induction fs as [|k' b r IH|k' t r IH]; cbn [fget fset leaves_fields]; intro G; [discriminate| |].
  - destruct (str_eqb k k') eqn:E.
    + injection G as ->. cbn [leaves_fields]. rewrite !app_assoc. apply Permutation_app_tail, Permutation_app_comm.
    + cbn [leaves_fields]. specialize (IH G).
      rewrite (app_assoc (leaves v)), (Permutation_app_comm (leaves v) (leaves b)), <- app_assoc.
      rewrite (app_assoc (leaves a)), (Permutation_app_comm (leaves a) (leaves b)), <- app_assoc.
      apply Permutation_app_head, IH.
  - destruct (str_eqb k k'); [discriminate|]. cbn [leaves_fields]. specialize (IH G).
    etransitivity; [symmetry; apply Permutation_middle|]. etransitivity; [|apply Permutation_middle]. constructor. exact IH.
Qed.
Lemma swap_leaves n G : Permutation (leaves_fields (swap_if n G)) (leaves_fields G).
Proof.
  unfold swap_if. destruct (should_swap n G) eqn:S; [|reflexivity].
  destruct (should_swap_inv _ _ S) as (a1 & a2 & G1 & G2 & _ & _). rewrite G1, G2.
  pose proof (fset_leaves k_p1 a2 G a1 G1) as P1.
  assert (G2': fget k_p2 (fset k_p1 a2 G) = Some a2) by (rewrite fget_fset_other by exact p2_neq_p1; exact G2).
  pose proof (fset_leaves k_p2 a1 _ a2 G2') as P2.
  symmetry. eapply Permutation_app_inv_l. etransitivity; [exact P1|exact P2].
Qed.
Lemma leaves_mut : (forall a, Permutation (leaves (opt a)) (leaves a)) /\
                   (forall fs, Permutation (leaves_fields (opt_fields fs)) (leaves_fields fs)).
Proof.
  apply alg_fields_ind.
  - intros n fs IH. cbn [opt leaves]. constructor. etransitivity; [apply swap_leaves|exact IH].
  - reflexivity.
  - intros k a IHa r IHr. cbn [opt_fields leaves_fields]. apply Permutation_app; assumption.
  - intros k t r IHr. cbn [opt_fields leaves_fields]. constructor. exact IHr.
Qed.
Theorem opt_same_content a : Permutation (leaves (opt a)) (leaves a).
Proof. apply leaves_mut. Qed.

Lemma fkeys_fset k v fs : fkeys (fset k v fs) = fkeys fs.
Proof.
  induction fs as [|k' b r IH|k' t r IH]; cbn [fkeys fset]; auto.
  - destruct (str_eqb k k'); cbn [fkeys]; rewrite ?IH; reflexivity.
  - destruct (str_eqb k k'); cbn [fkeys]; rewrite ?IH; reflexivity.
Qed.
Lemma fkeys_opt fs : fkeys (opt_fields fs) = fkeys fs.
Proof. induction fs as [|k' b r IH|k' t r IH]; cbn [fkeys opt_fields]; rewrite ?IH; reflexivity. Qed.
Theorem opt_same_shape n fs : exists fs', opt (ANode n fs) = ANode n fs' /\ fkeys fs' = fkeys fs.
Proof.
  exists (swap_if n (opt_fields fs)). split; [reflexivity|]. unfold swap_if.
  destruct (should_swap n (opt_fields fs)); [|apply fkeys_opt].
  destruct (fget k_p1 (opt_fields fs)), (fget k_p2 (opt_fields fs)); rewrite ?fkeys_fset; apply fkeys_opt.
Qed.

(* ---- the clause of C18: a VALUES clause written after the WHERE block (second operand of the Join) and one written
   inside it (first operand) are the same query after the rewriting ---- *)
Lemma fget_p1 a r : fget k_p1 (FNodeF k_p1 a r) = Some a.
Proof. cbn [fget]. rewrite str_eqb_refl. reflexivity. Qed.
Lemma fget_p2 a b r : fget k_p2 (FNodeF k_p1 a (FNodeF k_p2 b r)) = Some b.
Proof. cbn [fget]. rewrite p2_neq_p1, str_eqb_refl. reflexivity. Qed.
Lemma fset_p1 v a r : fset k_p1 v (FNodeF k_p1 a r) = FNodeF k_p1 v r.
Proof. cbn [fset]. rewrite str_eqb_refl. reflexivity. Qed.
Lemma fset_p2 v a b r : fset k_p2 v (FNodeF k_p1 a (FNodeF k_p2 b r)) = FNodeF k_p1 a (FNodeF k_p2 v r).
Proof. cbn [fset]. rewrite p2_neq_p1, str_eqb_refl. reflexivity. Qed.

Theorem values_placement X V rest : str_eqb (aname V) multiset_name = true -> str_eqb (aname X) multiset_name = false ->
  opt (ANode join_name (FNodeF k_p1 X (FNodeF k_p2 V rest))) = opt (ANode join_name (FNodeF k_p1 V (FNodeF k_p2 X rest))).
Proof.
  intros HV HX. rewrite !opt_code_order. f_equal. f_equal. unfold swap_if, should_swap.
  rewrite !fget_p1, !fget_p2, str_eqb_refl, HV, HX. cbn [negb andb].
  rewrite fset_p1, fset_p2. reflexivity.
Qed.

(* encoding and decoding of trees agree (the decoder of the driver reads back what the encoder writes) *)
Lemma as_alg_valg_mut : (forall a, as_alg (valg a) = Some a) /\
  (forall fs, (fix go (l : list val) : option fields :=
            match l with
            | [] => Some FNil
            | VList [VStr k; c] :: r =>
                match go r with
                | None => None
                | Some r' => match c with
                             | VStr t => Some (FLeafF k t r')
                             | _ => match as_alg c with Some a => Some (FNodeF k a r') | None => None end
                             end
                end
            | _ => None
            end) (vfields fs) = Some fs).
Proof.
  apply alg_fields_ind.
  - intros n fs IH. cbn [valg as_alg]. rewrite IH. reflexivity.
  - reflexivity.
  - intros k a IHa r IHr. cbn [vfields]. rewrite IHr. destruct a as [n fs]. cbn [valg] in *. rewrite IHa. reflexivity.
  - intros k t r IHr. cbn [vfields]. rewrite IHr. reflexivity.
Qed.
Theorem as_alg_valg a : as_alg (valg a) = Some a.
Proof. apply as_alg_valg_mut. Qed.

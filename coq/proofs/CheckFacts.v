(* The executable predicates accept the model's own observations on every valid case. *)
From Coq Require Import Lia Permutation.
From Curies.model Require Import Str PyData Trie Conv Query Val Answer Spec CheckQ.
From Curies.proofs Require Import StrFacts TrieFacts DictFacts IndexFacts QueryFacts.



Fixpoint val_eqb_refl (v : val) : val_eqb v v = true.
Proof.
  destruct v as [z|s|l| |v]; simpl.
  - apply Z.eqb_refl.
  - destruct (_ || _); auto. apply str_eqb_refl.
  - induction l as [|a l IH]; auto. rewrite val_eqb_refl. simpl. exact IH.
  - reflexivity.
  - apply val_eqb_refl.
Qed.

Lemma nodup_str_spec l : nodup_str l = true <-> NoDup l.
Proof.
  induction l as [|x l IH]; simpl.
  - split; [constructor|auto].
  - rewrite andb_true_iff, negb_true_iff, mem_false, IH. split.
    + intros [A B]. constructor; auto.
    + intro H. inversion H; auto.
Qed.

Lemma NoDup_app_inv {A} (l1 l2 : list A) : NoDup (l1 ++ l2) ->
  NoDup l1 /\ NoDup l2 /\ forall x, In x l1 -> In x l2 -> False.
Proof.
  induction l1 as [|a l1 IH]; simpl; intro H.
  - repeat split; auto. constructor.
  - inversion H as [|? ? Hn Hd]; subst. destruct (IH Hd) as (A1 & A2 & A3). repeat split; auto.
    + constructor; auto. intro Hin. apply Hn. apply in_or_app; auto.
    + intros x [<-|Hx] Hx2; [apply Hn; apply in_or_app; auto | eauto].
Qed.

Lemma nodup_flat_pairwise keysf (rs : list record) : NoDup (flat_map keysf rs) -> pairwise (disjoint_keys keysf) rs.
Proof.
  induction rs as [|a rs IH]; simpl; intro H; [constructor|].
  constructor.
  - intros b Hb k Ka Kb. apply NoDup_app_inv in H.
    destruct H as (_ & _ & H). apply (H k); auto. apply in_flat_map. eauto.
  - apply IH. apply NoDup_app_inv in H. apply H.
Qed.

Lemma valid_mk_conv k : valid_q k = true -> exists c, mk_conv true (qc_delim k) (qc_recs k) = Val c.
Proof.
  unfold valid_q, strict_okb. rewrite !andb_true_iff, !nodup_str_spec. intros [[Hp Hu] _].
  apply mk_conv_ok; apply nodup_flat_pairwise.
  - eapply Permutation_NoDup; [|exact Hu]. apply Permutation_flat_map. symmetry. apply sort_perm.
  - eapply Permutation_NoDup; [|exact Hp]. apply Permutation_flat_map. symmetry. apply sort_perm.
Qed.

Lemma agree_model sel k c : mk_conv true (qc_delim k) (qc_recs k) = Val c ->
  (forall q, sel q = true -> conv_query q = true) ->
  forall B, agree sel k (combine B (map (answer c) B)) = true.
Proof.
  intros Hc Hsel B. unfold agree. apply forallb_forall. intros [q v] Hin. simpl.
  destruct (sel q) eqn:Es; auto.
  assert (v = answer c q).
  { clear -Hin. induction B as [|b B IH]; simpl in Hin; [destruct Hin|].
    destruct Hin as [E|Hin]; [inversion E; auto|auto]. }
  subst v. rewrite (answer_spec _ _ _ Hc q (Hsel q Es)). apply val_eqb_refl.
Qed.

Lemma eval_P_model prop k c : mk_conv true (qc_delim k) (qc_recs k) = Val c ->
  eval_P prop k (model_qobs k) = (if P_query prop k (combine (qc_battery k) (map (answer c) (qc_battery k))) then 1 else 0)%Z.
Proof.
  intro Hc. unfold eval_P, model_qobs. rewrite Hc. simpl. rewrite map_length, Nat.eqb_refl. reflexivity.
Qed.

Theorem P_C01_model k : valid_q k = true -> eval_P 1 k (model_qobs k) = 1%Z.
Proof.
  intro Hv. destruct (valid_mk_conv k Hv) as [c Hc]. rewrite (eval_P_model _ _ _ Hc).
  unfold P_query. simpl. unfold P_C01. rewrite (agree_model sel_C01 k c Hc); auto.
  intros q; destruct q; simpl; auto; discriminate.
Qed.
Theorem P_C02_model k : valid_q k = true -> eval_P 2 k (model_qobs k) = 1%Z.
Proof.
  intro Hv. destruct (valid_mk_conv k Hv) as [c Hc]. rewrite (eval_P_model _ _ _ Hc).
  unfold P_query. simpl. unfold P_C02. rewrite (agree_model sel_C02 k c Hc); auto.
  intros q; destruct q; simpl; auto; discriminate.
Qed.

Lemma nodup_mk_conv d rs : NoDup (flat_map all_prefixes rs) -> NoDup (flat_map all_uris rs) -> exists c, mk_conv true d rs = Val c.
Proof.
  intros Hp Hu. apply mk_conv_ok; apply nodup_flat_pairwise.
  - eapply Permutation_NoDup; [|exact Hu]. apply Permutation_flat_map. symmetry. apply sort_perm.
  - eapply Permutation_NoDup; [|exact Hp]. apply Permutation_flat_map. symmetry. apply sort_perm.
Qed.

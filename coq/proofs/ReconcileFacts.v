(* C12: URI-prefix remapping and rewiring. *)
From Coq Require Import Lia Permutation.
From Curies.model Require Import Str PyData Trie Conv Query Val Answer Spec CheckQ Mutate Reconcile.
From Curies.proofs Require Import StrFacts TrieFacts DictFacts IndexFacts QueryFacts CheckFacts SortFacts C04Facts MutateFacts.

Lemma diff1_In l a x : In x (diff1 l a) <-> In x l /\ x <> a.
Proof. unfold diff1. rewrite filter_In, negb_true_iff, str_eqb_neq. tauto. Qed.

Lemma dhas_dget {V} k (d : dict V) : dhas k d = true <-> exists v, dget k d = Some v.
Proof. unfold dhas. destruct (dget k d); split; intro H; eauto; try discriminate. destruct H; discriminate. Qed.

(* ---- one record re-pointed ---- *)
Section Repoint.
Variables (c : conv) (r : record) (n : str) (skip : bool).
Let r' := repoint c r n skip.

Lemma repoint_curie_side : r_prefix r' = r_prefix r /\ r_psyn r' = r_psyn r /\ r_pat r' = r_pat r.
Proof.
  unfold r', repoint. destruct (skip && str_eqb n (r_uri r)); [auto|].
  destruct (dhas n (rpmap c) && negb (mem n (r_usyn r))); auto.
Qed.
(* every URI prefix it had it still has *)
Lemma repoint_keeps x : In x (all_uris r) -> In x (all_uris r').
Proof.
  unfold r', repoint. destruct (skip && str_eqb n (r_uri r)); [auto|].
  destruct (dhas n (rpmap c) && negb (mem n (r_usyn r))); auto.
  unfold all_uris. simpl. intros [<-|H].
  - destruct (str_eq_dec (r_uri r) n); [left; auto|]. right. apply sort_uniq_In. apply diff1_In. split; auto. apply in_or_app. right. left. auto.
  - destruct (str_eq_dec x n); [left; auto|]. right. apply sort_uniq_In. apply diff1_In. split; auto. apply in_or_app. left. auto.
Qed.
(* it gains at most the mapped new one *)
Lemma repoint_gains x : In x (all_uris r') -> x = n \/ In x (all_uris r).
Proof.
  unfold r', repoint. destruct (skip && str_eqb n (r_uri r)); [auto|].
  destruct (dhas n (rpmap c) && negb (mem n (r_usyn r))); auto.
  unfold all_uris. simpl. intros [<-|H]; auto. apply (proj1 (sort_uniq_In _ _)) in H. apply (proj1 (diff1_In _ _ _)) in H. destruct H as [H _].
  apply in_app_or in H as [H|[<-|[]]]; auto.
Qed.
(* untouched when the new URI prefix is registered in c and is not one of its own synonyms (owned by another record, or its own canonical) *)
Lemma repoint_clash_noop : dhas n (rpmap c) = true -> ~ In n (r_usyn r) -> r' = r.
Proof.
  intros H1 H2. unfold r', repoint. destruct (skip && str_eqb n (r_uri r)); auto.
  apply mem_false in H2. rewrite H1, H2. reflexivity.
Qed.
(* otherwise it becomes canonical and the replaced canonical URI prefix becomes a synonym *)
Lemma repoint_canonical : (dhas n (rpmap c) = false \/ In n (r_usyn r)) -> n <> r_uri r ->
  r_uri r' = n /\ In (r_uri r) (r_usyn r').
Proof.
  intros H Hne. unfold r', repoint.
  assert (E1: skip && str_eqb n (r_uri r) = false) by (apply str_eqb_neq in Hne; rewrite Hne; apply andb_false_r).
  assert (E2: dhas n (rpmap c) && negb (mem n (r_usyn r)) = false).
  { destruct H as [->|H]; auto. apply mem_In in H. rewrite H. apply andb_false_r. }
  rewrite E1, E2. simpl. split; auto. apply sort_uniq_In. apply diff1_In. split; [apply in_or_app; right; left; auto|auto].
Qed.
Lemma repoint_same : n = r_uri r -> skip = true \/ dhas n (rpmap c) = true /\ ~ In n (r_usyn r) -> r' = r.
Proof.
  intros -> [->|[H1 H2]]; unfold r', repoint.
  - rewrite str_eqb_refl. reflexivity.
  - destruct (skip && _); auto. apply mem_false in H2. rewrite H1, H2. reflexivity.
Qed.
End Repoint.

(* ---- TransitiveError exactly when some string is both a key and a value ---- *)
Lemma inter_In a b x : In x (inter a b) <-> In x a /\ In x b.
Proof. unfold inter. rewrite filter_In, dedup_In, mem_In. tauto. Qed.
Theorem transitive_iff c m : remap_uri_records c m = Raise ETransitive <-> exists s, In s (map fst m) /\ In s (map snd m).
Proof.
  unfold remap_uri_records. destruct (inter (map fst m) (map snd m)) as [|s l] eqn:E.
  - split; [discriminate|]. intros (s & H1 & H2). assert (In s (inter (map fst m) (map snd m))) by (apply inter_In; auto).
    rewrite E in H. destruct H.
  - split; auto. intros _. exists s. apply inter_In. rewrite E. left; auto.
Qed.
Theorem not_transitive c m : (forall s, In s (map fst m) -> In s (map snd m) -> False) ->
  remap_uri_records c m = Val (map (fun r => match first_hit (all_uris r) m with Some n => repoint c r n false | None => r end) (recs c)).
Proof.
  intro H. unfold remap_uri_records. destruct (inter (map fst m) (map snd m)) as [|s l] eqn:E; auto.
  exfalso. assert (Hs: In s (inter (map fst m) (map snd m))) by (rewrite E; left; auto). apply inter_In in Hs as [H1 H2]. eauto.
Qed.

(* rewiring a CURIE prefix unknown to the converter adds nothing *)
Lemma first_hit_none keys m : (forall k, In k keys -> dhas k m = false) -> first_hit keys m = None.
Proof.
  intro H. unfold first_hit. destruct (List.find _ keys) as [k|] eqn:E; auto. apply find_some in E as [Hk E]. rewrite H in E; auto. discriminate.
Qed.
Theorem rewire_unknown c m : (forall r k, In r (recs c) -> In k (all_prefixes r) -> dhas k m = false) -> rewire_records c m = recs c.
Proof.
  intro H. unfold rewire_records. rewrite <- (map_id (recs c)) at 2. apply map_ext_in. intros r Hr.
  rewrite first_hit_none; auto. intros k Hk. eapply H; eauto.
Qed.
Lemma first_hit_some keys m n : first_hit keys m = Some n -> exists k, In k keys /\ dget k m = Some n.
Proof.
  unfold first_hit. destruct (List.find _ keys) as [k|] eqn:E; [|discriminate]. apply find_some in E as [Hk _]. eauto.
Qed.

(* ---- injective mappings give a strict result ---- *)
Lemma pairwise_map {A B} (R' : B -> B -> Prop) (f : A -> B) l : NoDup l ->
  (forall a b, In a l -> In b l -> a <> b -> R' (f a) (f b)) -> pairwise R' (map f l).
Proof.
  induction l as [|a l IH]; simpl; intros N H; [constructor|]. inversion N as [|? ? Hn Hd]; subst. constructor.
  - intros b' Hb'. apply in_map_iff in Hb' as (b & <- & Hb). apply H; auto. intros ->. contradiction.
  - apply IH; auto.
Qed.
Lemma dget_In {V} k (d : dict V) v : dget k d = Some v -> In (k, v) d.
Proof. induction d as [|[a b] d IH]; simpl; [discriminate|]. destruct (str_eqb_spec k a); [intro H; inversion H; subst; auto|auto]. Qed.
Lemma injective_keys (m : list (str * str)) k1 k2 x : NoDup (map snd m) -> dget k1 m = Some x -> dget k2 m = Some x -> k1 = k2.
Proof.
  intros N H1 H2. apply dget_In in H1, H2. clear -N H1 H2.
  induction m as [|[a b] m IH]; simpl in *; [destruct H1|]. inversion N as [|? ? Hn Hd]; subst.
  destruct H1 as [E1|H1], H2 as [E2|H2].
  - congruence.
  - inversion E1; subst. exfalso. apply Hn. apply in_map_iff. exists (k2, x). auto.
  - inversion E2; subst. exfalso. apply Hn. apply in_map_iff. exists (k1, x). auto.
  - auto.
Qed.

Section Strictness.
Variable c : conv.
Hypothesis S : swf c.
Variable m : list (str * str).
Hypothesis Inj : NoDup (map snd m).
Variable keysf : record -> list str.
Hypothesis keys_pw : pairwise (disjoint_keys keysf) (recs c).
Variable skip : bool.
Definition step (r : record) : record := match first_hit (keysf r) m with Some n => repoint c r n skip | None => r end.

Lemma known_uri n : dhas n (rpmap c) = true <-> exists y, In y (recs c) /\ In n (all_uris y).
Proof.
  destruct S as (W & _ & Pu). rewrite dhas_dget, (wf_rpmap _ _ _ W). split.
  - intros [v H]. destruct (owner all_uris (recs c) n) as [y|] eqn:E; [|discriminate]. apply find_some in E as [Hy Hm]. apply mem_In in Hm. eauto.
  - intros (y & Hy & Hn). rewrite (owner_reg all_uris (recs c) n y); auto; [simpl; eauto|apply pairwise_one_owner; auto].
Qed.
Lemma step_prefixes r : all_prefixes (step r) = all_prefixes r /\ r_prefix (step r) = r_prefix r /\ r_psyn (step r) = r_psyn r /\ r_pat (step r) = r_pat r.
Proof.
  unfold step. destruct (first_hit (keysf r) m); auto. destruct (repoint_curie_side c r s skip) as (A & B & C).
  unfold all_prefixes. rewrite A, B. auto.
Qed.
(* a gained URI prefix is unknown to c and is the image of one of the record's keys *)
Lemma step_gain r x : In x (all_uris (step r)) -> ~ In x (all_uris r) ->
  dhas x (rpmap c) = false /\ exists k, In k (keysf r) /\ dget k m = Some x.
Proof.
  unfold step. destruct (first_hit (keysf r) m) as [n|] eqn:F; intros Hx Hn; [|contradiction].
  assert (x = n) by (apply repoint_gains in Hx as [->|Hx]; [auto|contradiction]). subst x.
  split; [|apply first_hit_some; auto].
  destruct (dhas n (rpmap c)) eqn:D; auto. exfalso.
  assert (Hs: ~ In n (r_usyn r)) by (intro; apply Hn; right; auto).
  rewrite (repoint_clash_noop c r n skip D Hs) in Hx. contradiction.
Qed.
Lemma step_keeps r x : In x (all_uris r) -> In x (all_uris (step r)).
Proof. unfold step. destruct (first_hit (keysf r) m); auto. apply repoint_keeps. Qed.

Theorem step_strict : pairwise (disjoint_keys all_prefixes) (map step (recs c)) /\ pairwise (disjoint_keys all_uris) (map step (recs c)).
Proof.
  destruct S as (W & Pp & Pu).
  assert (ND: NoDup (recs c)) by (eapply pairwise_nodup; [apply all_prefixes_ne|exact Pp]).
  split; apply pairwise_map; auto; intros a b Ha Hb Hne k Ka Kb.
  - destruct (step_prefixes a) as [Ea _]. destruct (step_prefixes b) as [Eb _]. rewrite Ea in Ka. rewrite Eb in Kb.
    apply (pairwise_in_neq _ (disjoint_keys_sym all_prefixes) _ a b Pp Ha Hb Hne k); auto.
  - destruct (in_dec str_eq_dec k (all_uris a)) as [Oa|Na], (in_dec str_eq_dec k (all_uris b)) as [Ob|Nb].
    + apply (pairwise_in_neq _ (disjoint_keys_sym all_uris) _ a b Pu Ha Hb Hne k); auto.
    + destruct (step_gain b k Kb Nb) as [D _]. assert (dhas k (rpmap c) = true) by (apply known_uri; eauto). congruence.
    + destruct (step_gain a k Ka Na) as [D _]. assert (dhas k (rpmap c) = true) by (apply known_uri; eauto). congruence.
    + destruct (step_gain a k Ka Na) as [_ (k1 & H1 & G1)]. destruct (step_gain b k Kb Nb) as [_ (k2 & H2 & G2)].
      assert (k1 = k2) by (eapply injective_keys; eauto). subst k2.
      apply (pairwise_in_neq _ (disjoint_keys_sym keysf) _ a b keys_pw Ha Hb Hne k1); auto.
Qed.
Theorem step_conv : exists R, mk_conv true [58%N] (map step (recs c)) = Val R /\ recs R = sort_records (map step (recs c)) /\ swf R.
Proof.
  destruct step_strict as [Pp Pu].
  destruct (mk_conv_ok [58%N] (map step (recs c))) as [R HR].
  - eapply pairwise_perm; [apply disjoint_keys_sym|symmetry; apply sort_perm|exact Pu].
  - eapply pairwise_perm; [apply disjoint_keys_sym|symmetry; apply sort_perm|exact Pp].
  - exists R. split; auto. split; [apply (c_recs _ _ _ HR)|eapply mk_conv_swf; eauto].
Qed.
End Strictness.

Lemma sort_sorted_id {A} (leb : A -> A -> bool) l : Sorted.Sorted (fun a b => leb a b = true) l -> sort leb l = l.
Proof.
  induction 1 as [|a l S IH Hd]; simpl; auto. rewrite IH. destruct Hd as [|b l' Hab]; simpl; auto. rewrite Hab. reflexivity.
Qed.
Lemma sort_records_idem rs : sort_records (sort_records rs) = sort_records rs.
Proof. unfold sort_records, sort_by_key. apply sort_sorted_id. apply sort_sorted. intros a b. apply str_leb_total. Qed.

(* ---- remap_uri_prefixes and rewire on injective mappings ---- *)
Theorem remap_uri_ok c m : swf c -> NoDup (map snd m) -> (forall s, In s (map fst m) -> In s (map snd m) -> False) ->
  exists R, remap_uri_prefixes c m = Val R /\ recs R = sort_records (map (step c m all_uris false) (recs c)) /\ swf R.
Proof.
  intros S Inj NT. unfold remap_uri_prefixes. rewrite not_transitive by auto. simpl.
  destruct S as (W & Pp & Pu). apply (step_conv c (conj W (conj Pp Pu)) m Inj all_uris Pu false).
Qed.
Theorem rewire_ok c m : swf c -> NoDup (map snd m) ->
  exists R, rewire c m = Val R /\ recs R = sort_records (rewire_records c m) /\ swf R.
Proof.
  intros S Inj. unfold rewire. destruct S as (W & Pp & Pu). apply (step_conv c (conj W (conj Pp Pu)) m Inj all_prefixes Pp true).
Qed.

(* applying the same rewiring twice equals applying it once *)
Theorem rewire_idempotent c m : swf c -> NoDup (map snd m) ->
  exists R R2, rewire c m = Val R /\ rewire R m = Val R2 /\ recs R2 = recs R.
Proof.
  intros S Inj. destruct (rewire_ok c m S Inj) as (R & HR & ER & SR). exists R.
  assert (Fix: rewire_records R m = recs R).
  { unfold rewire_records. rewrite <- (map_id (recs R)) at 2. apply map_ext_in. intros r' Hr'.
    rewrite ER in Hr'. apply (proj1 (sort_records_In _ _)) in Hr'. unfold rewire_records in Hr'. apply in_map_iff in Hr' as (r & Er & Hr).
    assert (Ep: all_prefixes r' = all_prefixes r).
    { subst r'. destruct (first_hit (all_prefixes r) m) as [n|]; auto. destruct (repoint_curie_side c r n true) as (A & B & _).
      unfold all_prefixes. rewrite A, B. reflexivity. }
    rewrite Ep. destruct (first_hit (all_prefixes r) m) as [n|] eqn:F; [|subst; reflexivity].
    destruct (str_eq_dec n (r_uri r)) as [En|Nn].
    - (* already canonical: untouched both times *)
      assert (r' = r) by (subst r'; apply repoint_same; auto). subst r'. rewrite H. apply repoint_same; auto.
    - destruct (dhas n (rpmap c)) eqn:D; [destruct (in_dec str_eq_dec n (r_usyn r)) as [Hs|Hs]|].
      + (* own synonym: becomes canonical; second time it is the canonical one *)
        destruct (repoint_canonical c r n true (or_intror Hs) Nn) as [Eu _]. rewrite Er in Eu. apply repoint_same; auto.
      + (* owned by another record: untouched, and still owned by that record afterwards *)
        assert (r' = r) by (subst r'; apply repoint_clash_noop; auto). subst r'. rewrite H. apply repoint_clash_noop; auto.
        apply (known_uri c S) in D as (y & Hy & Hn). apply (known_uri R SR).
        exists (step c m all_prefixes true y). split.
        * rewrite ER. apply sort_records_In. unfold rewire_records. apply in_map_iff. exists y. auto.
        * apply step_keeps. auto.
      + destruct (repoint_canonical c r n true (or_introl D) Nn) as [Eu _]. rewrite Er in Eu. apply repoint_same; auto. }
  unfold rewire at 2. rewrite Fix.
  destruct SR as (WR & PpR & PuR).
  destruct (mk_conv_ok [58%N] (recs R)) as [R2 H2].
  - eapply pairwise_perm; [apply disjoint_keys_sym|symmetry; apply sort_perm|exact PuR].
  - eapply pairwise_perm; [apply disjoint_keys_sym|symmetry; apply sort_perm|exact PpR].
  - exists R2. repeat split; auto. rewrite (c_recs _ _ _ H2), ER. apply sort_records_idem.
Qed.

(* Round trip of the JSON string-literal codec of Python's json module (model/JsonStr.v). *)
From Coq Require Import Lia ZArith.
From Curies.model Require Import Str JsonStr.
Local Open Scope N_scope.
(* let lia see through N.div / N.modulo by constants *)
Local Ltac Zify.zify_post_hook ::= Z.to_euclidean_division_equations.

(* ---------- small tools ---------- *)
Lemma str_ind2 (P : str -> Prop) :
  P [] -> (forall c, P [c]) -> (forall c d t, P t -> P (d :: t) -> P (c :: d :: t)) -> forall s, P s.
Proof.
  intros H0 H1 H2 s.
  assert (HH : P s /\ forall c, P (c :: s)).
  { induction s as [|d t [IHa IHb]]; [split; [exact H0 | exact H1]|].
    split; [apply IHb|]. intro c. apply H2; [exact IHa | apply IHb]. }
  exact (proj1 HH).
Qed.

Ltac btest :=
  repeat match goal with
         | H : (_ && _) = true |- _ => apply andb_true_iff in H; destruct H
         | H : (_ && _) = false |- _ => apply andb_false_iff in H
         | H : (_ || _) = true |- _ => apply orb_true_iff in H
         | H : negb _ = true |- _ => apply negb_true_iff in H
         | H : (_ <=? _) = true |- _ => apply N.leb_le in H
         | H : (_ <=? _) = false |- _ => apply N.leb_gt in H
         | H : (_ <? _) = true |- _ => apply N.ltb_lt in H
         | H : (_ <? _) = false |- _ => apply N.ltb_ge in H
         | H : (_ =? _) = true |- _ => apply N.eqb_eq in H
         | H : (_ =? _) = false |- _ => apply N.eqb_neq in H
         end.

Lemma is_high_iff c : is_high c = true <-> 0xD800 <= c <= 0xDBFF.
Proof. unfold is_high. rewrite andb_true_iff, !N.leb_le. tauto. Qed.
Lemma is_low_iff c : is_low c = true <-> 0xDC00 <= c <= 0xDFFF.
Proof. unfold is_low. rewrite andb_true_iff, !N.leb_le. tauto. Qed.
Lemma is_high_false_iff c : is_high c = false <-> (c < 0xD800 \/ 0xDBFF < c).
Proof. unfold is_high. rewrite andb_false_iff, !N.leb_gt. tauto. Qed.
Lemma is_low_false_iff c : is_low c = false <-> (c < 0xDC00 \/ 0xDFFF < c).
Proof. unfold is_low. rewrite andb_false_iff, !N.leb_gt. tauto. Qed.
Lemma cp_valid_iff c : cp_valid c = true <-> c <= 0x10FFFF.
Proof. unfold cp_valid. apply N.leb_le. Qed.

Lemma utf16_join_cons2 c d t :
  utf16_join (c :: d :: t) =
  if is_high c && is_low d then join_surrogates c d :: utf16_join t else c :: utf16_join (d :: t).
Proof. reflexivity. Qed.
Lemma no_surrogate_pair_cons2 c d t :
  no_surrogate_pair (c :: d :: t) = negb (is_high c && is_low d) && no_surrogate_pair (d :: t).
Proof. reflexivity. Qed.

(* ---------- hex digits ---------- *)
Lemma hexval_hexdigit n : n < 16 -> hexval (hexdigit n) = Some n.
Proof.
  intro H.
  assert (E : n = 0 \/ n = 1 \/ n = 2 \/ n = 3 \/ n = 4 \/ n = 5 \/ n = 6 \/ n = 7 \/ n = 8 \/ n = 9 \/
              n = 10 \/ n = 11 \/ n = 12 \/ n = 13 \/ n = 14 \/ n = 15) by lia.
  repeat (destruct E as [-> | E]; [reflexivity|]). subst n. reflexivity.
Qed.

Lemma hex4val_hex4 n : n < 65536 ->
  hex4val (hexdigit ((n / 4096) mod 16)) (hexdigit ((n / 256) mod 16))
          (hexdigit ((n / 16) mod 16)) (hexdigit (n mod 16)) = Some n.
Proof.
  intro H. unfold hex4val.
  rewrite !hexval_hexdigit by (apply N.mod_lt; discriminate).
  f_equal. lia.
Qed.

(* every digit written by the encoder is a lower-case hex digit character *)
Lemma hexdigit_range n : n < 16 ->
  (48 <= hexdigit n <= 57) \/ (97 <= hexdigit n <= 102).
Proof. intro H. unfold hexdigit. destruct (n <? 10) eqn:E; btest; lia. Qed.

(* ---------- the scanner, one token at a time ---------- *)
Lemma scan_quote : scan_body [34] = Some [].
Proof. reflexivity. Qed.

Lemma scan_plain c t : c <> 34 -> c <> 92 -> 32 <= c ->
  scan_body (c :: t) = option_map (cons c) (scan_body t).
Proof.
  intros H1 H2 H3. cbn [scan_body].
  apply N.eqb_neq in H1, H2. rewrite H1, H2.
  destruct (c <? 32) eqn:E; [btest; lia | reflexivity].
Qed.

Lemma scan_u_eq h1 h2 h3 h4 t2 :
  scan_body (92 :: 117 :: h1 :: h2 :: h3 :: h4 :: t2) =
  match hex4val h1 h2 h3 h4 with
  | None => None
  | Some u1 =>
      match (if is_high u1 then low_escape t2 else None) with
      | Some u2 =>
          match t2 with
          | _ :: _ :: _ :: _ :: _ :: _ :: t3 => option_map (cons (join_surrogates u1 u2)) (scan_body t3)
          | _ => None
          end
      | None => option_map (cons u1) (scan_body t2)
      end
  end.
Proof. reflexivity. Qed.

Lemma scan_u n t2 : n < 65536 ->
  scan_body (u_escape n ++ t2) =
  match (if is_high n then low_escape t2 else None) with
  | Some u2 =>
      match t2 with
      | _ :: _ :: _ :: _ :: _ :: _ :: t3 => option_map (cons (join_surrogates n u2)) (scan_body t3)
      | _ => None
      end
  | None => option_map (cons n) (scan_body t2)
  end.
Proof.
  intro H. unfold u_escape, hex4. cbn [app]. rewrite scan_u_eq, hex4val_hex4 by exact H. reflexivity.
Qed.

Lemma low_escape_u n t : n < 65536 ->
  low_escape (u_escape n ++ t) = if is_low n then Some n else None.
Proof.
  intro H. unfold u_escape, hex4. cbn [app].
  change (low_escape (92 :: 117 :: ?a :: ?b :: ?c :: ?d :: t))
    with (match hex4val a b c d with Some u2 => if is_low u2 then Some u2 else None | None => None end).
  rewrite hex4val_hex4 by exact H. reflexivity.
Qed.

Lemma low_escape_not_backslash c t : c <> 92 -> low_escape (c :: t) = None.
Proof.
  intro H. apply N.eqb_neq in H.
  destruct t as [|u [|g1 [|g2 [|g3 [|g4 t]]]]]; cbn [low_escape]; try reflexivity.
  rewrite H. reflexivity.
Qed.

Lemma low_escape_not_u e t : e <> 117 -> low_escape (92 :: e :: t) = None.
Proof.
  intro H. apply N.eqb_neq in H.
  destruct t as [|g1 [|g2 [|g3 [|g4 t]]]]; cbn [low_escape]; try reflexivity.
  rewrite H, andb_false_r. reflexivity.
Qed.

(* ---------- the encoder, one code point at a time ---------- *)
(* the code points with a short or control escape, and how the scanner reads them back *)
Lemma esc_basic_scan c e t : esc_basic c = Some e ->
  scan_body (e ++ t) = option_map (cons c) (scan_body t) /\ c < 93 /\
  (forall t', low_escape (e ++ t') = None).
Proof.
  unfold esc_basic. intro H.
  destruct (c =? 34) eqn:E1; [btest; subst; inversion H; subst; repeat split; try reflexivity; intro; apply low_escape_not_u; discriminate|].
  destruct (c =? 92) eqn:E2; [btest; subst; inversion H; subst; repeat split; try reflexivity; intro; apply low_escape_not_u; discriminate|].
  destruct (c =? 10) eqn:E3; [btest; subst; inversion H; subst; repeat split; try reflexivity; intro; apply low_escape_not_u; discriminate|].
  destruct (c =? 13) eqn:E4; [btest; subst; inversion H; subst; repeat split; try reflexivity; intro; apply low_escape_not_u; discriminate|].
  destruct (c =? 9) eqn:E5; [btest; subst; inversion H; subst; repeat split; try reflexivity; intro; apply low_escape_not_u; discriminate|].
  destruct (c =? 8) eqn:E6; [btest; subst; inversion H; subst; repeat split; try reflexivity; intro; apply low_escape_not_u; discriminate|].
  destruct (c =? 12) eqn:E7; [btest; subst; inversion H; subst; repeat split; try reflexivity; intro; apply low_escape_not_u; discriminate|].
  destruct (c <? 32) eqn:E8; [|discriminate].
  btest. inversion H; subst e. clear H.
  assert (Hh : is_high c = false) by (apply is_high_false_iff; lia).
  assert (Hl : is_low c = false) by (apply is_low_false_iff; lia).
  repeat split.
  - rewrite scan_u by lia. rewrite Hh. reflexivity.
  - lia.
  - intro t'. rewrite low_escape_u by lia. rewrite Hl. reflexivity.
Qed.

Lemma esc_basic_none c : esc_basic c = None -> c <> 34 /\ c <> 92 /\ 32 <= c.
Proof.
  unfold esc_basic. intro H.
  destruct (c =? 34) eqn:E1; [discriminate|].
  destruct (c =? 92) eqn:E2; [discriminate|].
  destruct (c =? 10); [discriminate|]. destruct (c =? 13); [discriminate|].
  destruct (c =? 9); [discriminate|]. destruct (c =? 8); [discriminate|].
  destruct (c =? 12); [discriminate|].
  destruct (c <? 32) eqn:E8; [discriminate|]. btest. repeat split; assumption.
Qed.

(* ensure_ascii=False: every code point is read back as itself, whatever follows *)
Lemma esc_char_scan_raw c t :
  scan_body (esc_char false c ++ t) = option_map (cons c) (scan_body t).
Proof.
  unfold esc_char. destruct (esc_basic c) as [e|] eqn:E.
  - apply (esc_basic_scan c e t E).
  - destruct (esc_basic_none c E) as (H1 & H2 & H3). cbn [andb app]. apply scan_plain; assumption.
Qed.

(* ensure_ascii=True: a code point that is not a high surrogate is read back as itself *)
Lemma esc_char_scan_ascii c t : c <= 0x10FFFF -> is_high c = false ->
  scan_body (esc_char true c ++ t) = option_map (cons c) (scan_body t).
Proof.
  intros Hv Hh. unfold esc_char. destruct (esc_basic c) as [e|] eqn:E.
  - apply (esc_basic_scan c e t E).
  - destruct (esc_basic_none c E) as (H1 & H2 & H3). cbn [andb].
    destruct (126 <? c) eqn:E1; [|cbn [app]; apply scan_plain; assumption].
    destruct (c <? 65536) eqn:E2; btest.
    + rewrite scan_u by lia. rewrite Hh. reflexivity.
    + cbv zeta. rewrite <- app_assoc.
      set (hi := 55296 + ((c - 65536) / 1024) mod 1024).
      set (lo := 56320 + (c - 65536) mod 1024).
      assert (Hhi : 0xD800 <= hi <= 0xDBFF) by (subst hi; lia).
      assert (Hlo : 0xDC00 <= lo <= 0xDFFF) by (subst lo; lia).
      rewrite scan_u by lia.
      rewrite (proj2 (is_high_iff hi) Hhi).
      rewrite low_escape_u by lia.
      rewrite (proj2 (is_low_iff lo) Hlo).
      unfold u_escape at 1, hex4. cbn [app].
      f_equal. f_equal. unfold join_surrogates. subst hi lo. lia.
Qed.

(* ensure_ascii=True: a high surrogate is written as one \uXXXX escape ... *)
Lemma esc_char_high c : is_high c = true -> esc_char true c = u_escape c.
Proof.
  intro H. apply is_high_iff in H. unfold esc_char, esc_basic.
  replace (c =? 34) with false by (symmetry; apply N.eqb_neq; lia).
  replace (c =? 92) with false by (symmetry; apply N.eqb_neq; lia).
  replace (c =? 10) with false by (symmetry; apply N.eqb_neq; lia).
  replace (c =? 13) with false by (symmetry; apply N.eqb_neq; lia).
  replace (c =? 9) with false by (symmetry; apply N.eqb_neq; lia).
  replace (c =? 8) with false by (symmetry; apply N.eqb_neq; lia).
  replace (c =? 12) with false by (symmetry; apply N.eqb_neq; lia).
  replace (c <? 32) with false by (symmetry; apply N.ltb_ge; lia).
  replace (126 <? c) with true by (symmetry; apply N.ltb_lt; lia).
  replace (c <? 65536) with true by (symmetry; apply N.ltb_lt; lia).
  reflexivity.
Qed.

Lemma esc_char_low c : is_low c = true -> esc_char true c = u_escape c.
Proof.
  intro H. apply is_low_iff in H. unfold esc_char, esc_basic.
  replace (c =? 34) with false by (symmetry; apply N.eqb_neq; lia).
  replace (c =? 92) with false by (symmetry; apply N.eqb_neq; lia).
  replace (c =? 10) with false by (symmetry; apply N.eqb_neq; lia).
  replace (c =? 13) with false by (symmetry; apply N.eqb_neq; lia).
  replace (c =? 9) with false by (symmetry; apply N.eqb_neq; lia).
  replace (c =? 8) with false by (symmetry; apply N.eqb_neq; lia).
  replace (c =? 12) with false by (symmetry; apply N.eqb_neq; lia).
  replace (c <? 32) with false by (symmetry; apply N.ltb_ge; lia).
  replace (126 <? c) with true by (symmetry; apply N.ltb_lt; lia).
  replace (c <? 65536) with true by (symmetry; apply N.ltb_lt; lia).
  reflexivity.
Qed.

(* ... and the scanner looks ahead: what it sees at the start of the next code point's output *)
Lemma low_escape_esc_char d t : d <= 0x10FFFF ->
  low_escape (esc_char true d ++ t) = if is_low d then Some d else None.
Proof.
  intro Hv. destruct (is_low d) eqn:Hl.
  - rewrite esc_char_low by exact Hl. apply is_low_iff in Hl.
    rewrite low_escape_u by lia. rewrite (proj2 (is_low_iff d)) by lia. reflexivity.
  - apply is_low_false_iff in Hl. unfold esc_char. destruct (esc_basic d) as [e|] eqn:E.
    + apply (esc_basic_scan d e t E).
    + destruct (esc_basic_none d E) as (H1 & H2 & H3). cbn [andb].
      destruct (126 <? d) eqn:E1; [|cbn [app]; apply low_escape_not_backslash; assumption].
      destruct (d <? 65536) eqn:E2; btest.
      * rewrite low_escape_u by lia. rewrite (proj2 (is_low_false_iff d)) by lia. reflexivity.
      * cbv zeta. rewrite <- app_assoc.
        set (hi := 55296 + ((d - 65536) / 1024) mod 1024).
        assert (Hhi : 0xD800 <= hi <= 0xDBFF) by (subst hi; lia).
        rewrite low_escape_u by lia. rewrite (proj2 (is_low_false_iff hi)) by lia. reflexivity.
Qed.

(* ---------- what the decoder returns on the encoder's output ---------- *)
Theorem json_decode_encode_raw s : json_decode_str (json_encode_str false s) = Some s.
Proof.
  unfold json_encode_str, json_decode_str. cbn [N.eqb Pos.eqb].
  induction s as [|c t IH]; [reflexivity|].
  cbn [flat_map]. rewrite <- app_assoc, esc_char_scan_raw, IH. reflexivity.
Qed.

Lemma scan_encode_ascii s : str_valid s = true ->
  scan_body (flat_map (esc_char true) s ++ [34]) = Some (utf16_join s).
Proof.
  induction s as [| c | c d t IHt IHdt] using str_ind2; intro Hv.
  - reflexivity.
  - unfold str_valid in Hv. cbn [forallb] in Hv. btest. apply cp_valid_iff in H.
    cbn [flat_map utf16_join app]. rewrite app_nil_r.
    destruct (is_high c) eqn:Hh.
    + rewrite esc_char_high by exact Hh. apply is_high_iff in Hh as Hh'.
      rewrite scan_u by lia. rewrite Hh. reflexivity.
    + rewrite esc_char_scan_ascii by assumption. reflexivity.
  - assert (Hc : c <= 0x10FFFF /\ d <= 0x10FFFF /\ str_valid t = true /\ str_valid (d :: t) = true).
    { unfold str_valid in *. cbn [forallb] in *. btest. rewrite <- !cp_valid_iff.
      repeat split; try assumption. apply andb_true_iff. split; assumption. }
    destruct Hc as (Hc & Hd & Hvt & Hvdt).
    specialize (IHt Hvt). specialize (IHdt Hvdt).
    change (flat_map (esc_char true) (c :: d :: t) ++ [34])
      with ((esc_char true c ++ flat_map (esc_char true) (d :: t)) ++ [34]).
    rewrite <- app_assoc.
    rewrite utf16_join_cons2. destruct (is_high c) eqn:Hh.
    + rewrite esc_char_high by exact Hh. apply is_high_iff in Hh as Hh'.
      rewrite scan_u by lia. rewrite Hh.
      cbn [flat_map]. rewrite <- app_assoc.
      rewrite low_escape_esc_char by exact Hd.
      cbn [andb]. destruct (is_low d) eqn:Hl.
      * rewrite esc_char_low by exact Hl. unfold u_escape at 1, hex4. cbn [app].
        rewrite IHt. reflexivity.
      * cbn [flat_map] in IHdt. rewrite <- app_assoc in IHdt.
        rewrite IHdt. reflexivity.
    + rewrite esc_char_scan_ascii by assumption. rewrite IHdt. reflexivity.
Qed.

(* json.loads(json.dumps(s)) reads the str as UTF-16 *)
Theorem json_decode_encode_ascii s : str_valid s = true ->
  json_decode_str (json_encode_str true s) = Some (utf16_join s).
Proof.
  intro Hv. unfold json_encode_str, json_decode_str. cbn [N.eqb Pos.eqb].
  apply scan_encode_ascii. exact Hv.
Qed.

(* ---------- utf16_join is the identity exactly on the strings without a surrogate pair ---------- *)
Lemma utf16_join_length s : (length (utf16_join s) <= length s)%nat.
Proof.
  induction s as [| c | c d t IHt IHdt] using str_ind2; [apply le_n | apply le_n |].
  rewrite utf16_join_cons2. destruct (is_high c && is_low d); cbn [length] in *; lia.
Qed.

Lemma utf16_join_id s : utf16_join s = s <-> no_surrogate_pair s = true.
Proof.
  induction s as [| c | c d t IHt IHdt] using str_ind2; [split; reflexivity | split; reflexivity |].
  rewrite utf16_join_cons2, no_surrogate_pair_cons2. destruct (is_high c && is_low d) eqn:E; cbn [negb andb].
  - split; [|discriminate]. intro H. exfalso.
    apply (f_equal (@length chr)) in H. cbn [length] in H.
    pose proof (utf16_join_length t). lia.
  - rewrite <- IHdt. split; [intro H; inversion H as [H']; rewrite H'; exact H' | intro H; rewrite H; reflexivity].
Qed.

(* ---------- the round trip ---------- *)
Theorem json_str_roundtrip ascii s :
  json_rt_ok ascii s = true -> json_decode_str (json_encode_str ascii s) = Some s.
Proof.
  unfold json_rt_ok. destruct ascii; cbn [negb orb]; intro H.
  - btest. rewrite json_decode_encode_ascii by assumption. f_equal. apply utf16_join_id. assumption.
  - apply json_decode_encode_raw.
Qed.

(* the hypothesis is the weakest possible one: on Python strs (code points <= 0x10FFFF) the round
   trip with ensure_ascii=True holds exactly when no high surrogate is followed by a low one *)
Theorem json_str_roundtrip_ascii_iff s : str_valid s = true ->
  (json_decode_str (json_encode_str true s) = Some s <-> no_surrogate_pair s = true).
Proof.
  intro Hv. rewrite json_decode_encode_ascii by exact Hv. rewrite <- utf16_join_id.
  split; [intro H; inversion H as [H']; rewrite H'; exact H' | intro H; rewrite H; reflexivity].
Qed.

(* the counterexample: json.loads(json.dumps(chr(0xD800) + chr(0xDC00))) == chr(0x10000) *)
Theorem json_str_roundtrip_refuted :
  json_encode_str true [0xD800; 0xDC00] = [34; 92; 117; 100; 56; 48; 48; 92; 117; 100; 99; 48; 48; 34] /\
  json_decode_str (json_encode_str true [0xD800; 0xDC00]) = Some [0x10000] /\
  str_valid [0xD800; 0xDC00] = true.
Proof. vm_compute. repeat split. Qed.

Theorem json_str_roundtrip_unrestricted_refuted :
  ~ (forall ascii s, str_valid s = true -> json_decode_str (json_encode_str ascii s) = Some s).
Proof. intro H. specialize (H true [0xD800; 0xDC00] eq_refl). vm_compute in H. discriminate. Qed.

(* ---------- injectivity ---------- *)
Corollary json_encode_str_inj ascii s1 s2 :
  json_rt_ok ascii s1 = true -> json_rt_ok ascii s2 = true ->
  json_encode_str ascii s1 = json_encode_str ascii s2 -> s1 = s2.
Proof.
  intros H1 H2 E. apply json_str_roundtrip in H1, H2. rewrite E in H1. congruence.
Qed.

Corollary json_encode_str_raw_inj s1 s2 :
  json_encode_str false s1 = json_encode_str false s2 -> s1 = s2.
Proof. apply json_encode_str_inj; reflexivity. Qed.

(* ---------- exactly which strs collide under ensure_ascii=True ---------- *)
Lemma esc_char_join c d : is_high c = true -> is_low d = true ->
  esc_char true (join_surrogates c d) = u_escape c ++ u_escape d.
Proof.
  intros Hc Hd. apply is_high_iff in Hc. apply is_low_iff in Hd.
  set (j := join_surrogates c d).
  assert (Hj : 65536 <= j <= 0x10FFFF) by (subst j; unfold join_surrogates; lia).
  unfold esc_char, esc_basic.
  replace (j =? 34) with false by (symmetry; apply N.eqb_neq; lia).
  replace (j =? 92) with false by (symmetry; apply N.eqb_neq; lia).
  replace (j =? 10) with false by (symmetry; apply N.eqb_neq; lia).
  replace (j =? 13) with false by (symmetry; apply N.eqb_neq; lia).
  replace (j =? 9) with false by (symmetry; apply N.eqb_neq; lia).
  replace (j =? 8) with false by (symmetry; apply N.eqb_neq; lia).
  replace (j =? 12) with false by (symmetry; apply N.eqb_neq; lia).
  replace (j <? 32) with false by (symmetry; apply N.ltb_ge; lia).
  replace (126 <? j) with true by (symmetry; apply N.ltb_lt; lia).
  replace (j <? 65536) with false by (symmetry; apply N.ltb_ge; lia).
  cbn [andb]. cbv zeta.
  replace (55296 + ((j - 65536) / 1024) mod 1024) with c by (subst j; unfold join_surrogates; lia).
  replace (56320 + (j - 65536) mod 1024) with d by (subst j; unfold join_surrogates; lia).
  reflexivity.
Qed.

Lemma flat_map_esc_utf16_join s :
  flat_map (esc_char true) (utf16_join s) = flat_map (esc_char true) s.
Proof.
  induction s as [| c | c d t IHt IHdt] using str_ind2; [reflexivity | reflexivity |].
  rewrite utf16_join_cons2. destruct (is_high c && is_low d) eqn:E.
  - btest. change (flat_map (esc_char true) (c :: d :: t))
      with (esc_char true c ++ esc_char true d ++ flat_map (esc_char true) t).
    cbn [flat_map]. rewrite IHt, esc_char_join, esc_char_high, esc_char_low by assumption.
    rewrite <- app_assoc. reflexivity.
  - change (flat_map (esc_char true) (c :: d :: t))
      with (esc_char true c ++ flat_map (esc_char true) (d :: t)).
    cbn [flat_map] in *. rewrite IHdt. reflexivity.
Qed.

(* json.dumps(s) only depends on s read as UTF-16 ... *)
Theorem json_encode_str_utf16_join s :
  json_encode_str true (utf16_join s) = json_encode_str true s.
Proof. unfold json_encode_str. rewrite flat_map_esc_utf16_join. reflexivity. Qed.

(* ... so two Python strs get the same literal exactly when they are the same UTF-16 *)
Theorem json_encode_str_ascii_eq_iff s1 s2 : str_valid s1 = true -> str_valid s2 = true ->
  (json_encode_str true s1 = json_encode_str true s2 <-> utf16_join s1 = utf16_join s2).
Proof.
  intros H1 H2. split; intro E.
  - apply json_decode_encode_ascii in H1, H2. rewrite E in H1. congruence.
  - rewrite <- (json_encode_str_utf16_join s1), <- (json_encode_str_utf16_join s2), E. reflexivity.
Qed.

(* ---------- ensure_ascii=True really produces printable ASCII only (for every input) ---------- *)
Lemma ascii_only_app a b : json_ascii_only (a ++ b) = json_ascii_only a && json_ascii_only b.
Proof. apply forallb_app. Qed.

Lemma u_escape_ascii_only n : json_ascii_only (u_escape n) = true.
Proof.
  assert (Hd : forall k, k < 16 -> (32 <=? hexdigit k) && (hexdigit k <=? 126) = true).
  { intros k Hk. destruct (hexdigit_range k Hk); apply andb_true_iff; rewrite !N.leb_le; lia. }
  unfold u_escape, hex4, json_ascii_only. cbn [forallb].
  rewrite !Hd by (apply N.mod_lt; discriminate). reflexivity.
Qed.

Lemma esc_char_ascii_only c : json_ascii_only (esc_char true c) = true.
Proof.
  unfold esc_char. destruct (esc_basic c) as [e|] eqn:E.
  - unfold esc_basic in E.
    repeat match type of E with
           | (if ?b then _ else _) = _ => destruct b eqn:?; [inversion E; subst e; try reflexivity|]
           end; [apply u_escape_ascii_only | discriminate].
  - destruct (esc_basic_none c E) as (H1 & H2 & H3). cbn [andb].
    destruct (126 <? c) eqn:E1.
    + destruct (c <? 65536); [apply u_escape_ascii_only|].
      cbv zeta. rewrite ascii_only_app, !u_escape_ascii_only. reflexivity.
    + btest. unfold json_ascii_only. cbn [forallb]. rewrite andb_true_r.
      apply andb_true_iff. rewrite !N.leb_le. lia.
Qed.

Theorem json_encode_str_ascii_only s : json_ascii_only (json_encode_str true s) = true.
Proof.
  unfold json_encode_str.
  change (34 :: flat_map (esc_char true) s ++ [34]) with ([34] ++ flat_map (esc_char true) s ++ [34]).
  rewrite !ascii_only_app. cbn [andb]. rewrite andb_true_r.
  change (json_ascii_only [34]) with true. cbn [andb].
  induction s as [|c t IH]; [reflexivity|].
  cbn [flat_map]. rewrite ascii_only_app, esc_char_ascii_only, IH. reflexivity.
Qed.

(* and the encoder is NOT injective on all Python strs: two different keys, one literal *)
Theorem json_encode_str_collision :
  [0xD800; 0xDC00] <> [0x10000] /\ json_encode_str true [0xD800; 0xDC00] = json_encode_str true [0x10000].
Proof. split; [discriminate | vm_compute; reflexivity]. Qed.

Print Assumptions json_decode_encode_raw.
Print Assumptions json_decode_encode_ascii.
Print Assumptions json_str_roundtrip.
Print Assumptions json_str_roundtrip_ascii_iff.
Print Assumptions json_str_roundtrip_refuted.
Print Assumptions json_str_roundtrip_unrestricted_refuted.
Print Assumptions json_encode_str_inj.
Print Assumptions json_encode_str_raw_inj.
Print Assumptions json_encode_str_utf16_join.
Print Assumptions json_encode_str_ascii_eq_iff.
Print Assumptions json_encode_str_ascii_only.
Print Assumptions json_encode_str_collision.

(* C18: the triples oracle returns the valid members of expand_all(compress(u)); header negotiation picks the
   supported type with the highest q (first listed on ties). *)
From Coq Require Import Lia.
From Curies.model Require Import Str PyData Trie Conv Query Val Answer Spec CheckQ Mapping.
From Curies.proofs Require Import StrFacts IndexFacts QueryFacts LawFacts.

Section O.
Variable inv : chr -> bool.
Variables (d : str) (rs : list record) (c : conv).
Hypothesis Hc : mk_conv true d rs = Val c.

Theorem equivalents_spec u : equivalents inv c u = spec_equivalents inv rs u.
Proof.
  unfold equivalents, spec_equivalents. rewrite (L_parse_uri _ _ _ Hc). unfold sp_parse_uri.
  destruct (longest_match rs u) as [[p r]|] eqn:E; auto.
  apply longest_match_some in E as (Hr & _). rewrite (A_expand_pair_all _ _ _ Hc). unfold sp_expand_pair_all.
  rewrite (owner_canonical _ _ _ Hc r Hr). reflexivity.
Qed.
(* ... which are exactly the syntactically valid members of expand_all(compress(u)) *)
Theorem equivalents_expand_all u x : H_d d rs -> compress c u false false = Val (Some x) ->
  exists l, expand_all c x false = Val (Some l) /\ equivalents inv c u = filter (valid_uri inv) l.
Proof.
  intros Hd Hx. rewrite equivalents_spec. unfold spec_equivalents.
  apply (compress_val _ _ _ Hc) in Hx. apply (sp_compress_shape d rs) in Hx as (p & r & E & -> & Eu & Hr & Hp).
  rewrite E. rewrite (A_expand_all _ _ _ Hc). unfold sp_expand_all, sp_expand_pair_all.
  rewrite (delim_safe_partition d (r_prefix r) _ (Hd r Hr)). rewrite (owner_canonical _ _ _ Hc r Hr). simpl.
  eexists. split; reflexivity.
Qed.
Theorem unrecognised_nothing u : is_uri c u = false -> equivalents inv c u = [].
Proof.
  intro H. rewrite equivalents_spec. unfold spec_equivalents. rewrite (A_is_uri _ _ _ Hc) in H. unfold sp_is_uri in H.
  destruct (longest_match rs u) as [[p r]|]; [discriminate|reflexivity].
Qed.
Theorem other_predicate_nothing u : triples_for inv c false u = [].
Proof. reflexivity. Qed.
(* the statement of the property itself: whatever compress and expand_all answer, the graph yields the syntactically valid
   members of expand_all(compress(u)), and nothing when compress gives None *)
Theorem triples_relative is_pred u : H_d d rs ->
  triples_for inv c is_pred u =
  rel_answer inv is_pred (match compress c u false false with
                          | Val (Some x) => match expand_all c x false with Val o => o | Raise _ => None end
                          | _ => None end).
Proof.
  intro Hd. unfold triples_for, rel_answer. destruct is_pred; [|reflexivity].
  destruct (compress c u false false) as [[x|]|e] eqn:E.
  - destruct (equivalents_expand_all u x Hd E) as (l & El & Eq). rewrite El. exact Eq.
  - apply unrecognised_nothing. destruct (is_uri c u) eqn:I; auto. apply (C07_is_uri _ _ _ Hc) in I. congruence.
  - exfalso. rewrite (A_compress _ _ _ Hc), wrap_default in E. discriminate.
Qed.
End O.

(* ---- q-values ---- *)
Definition qpos (q : N * N) : Prop := (0 < snd q)%N.
Lemma q_geb_total a b : q_geb a b = true \/ q_geb b a = true.
Proof. unfold q_geb. destruct (N.leb_spec (fst b * snd a) (fst a * snd b)), (N.leb_spec (fst a * snd b) (fst b * snd a)); auto; lia. Qed.
Lemma q_geb_trans a b c : qpos a -> qpos b -> qpos c -> q_geb a b = true -> q_geb b c = true -> q_geb a c = true.
Proof.
  unfold q_geb, qpos. rewrite !N.leb_le. destruct a as [a1 a2], b as [b1 b2], c as [c1 c2]. simpl. intros Ha Hb Hc0 H1 H2.
  (* c1*a2 <= a1*c2  from  b1*a2 <= a1*b2  and  c1*b2 <= b1*c2 *)
  assert (c1 * a2 * b2 <= a1 * c2 * b2)%N; [|nia].
  assert (c1 * b2 * a2 <= b1 * c2 * a2)%N by nia.
  assert (b1 * a2 * c2 <= a1 * b2 * c2)%N by nia. nia.
Qed.

Section H.
Variable P : str * (N * N) -> bool.
Definition all_qpos (l : list (str * (N * N))) : Prop := forall x, In x l -> qpos (snd x).

Inductive sorted_desc : list (str * (N * N)) -> Prop :=
| sd_nil : sorted_desc []
| sd_cons x l : (forall y, In y l -> q_geb (snd x) (snd y) = true) -> sorted_desc l -> sorted_desc (x :: l).

Lemma insert_desc_In x l y : In y (insert_desc x l) <-> y = x \/ In y l.
Proof.
  induction l as [|z l IH]; simpl; [intuition|]. destruct (q_geb (snd x) (snd z)); simpl; [intuition|].
  rewrite IH. intuition.
Qed.
Lemma insert_desc_sorted x l : all_qpos (x :: l) -> sorted_desc l -> sorted_desc (insert_desc x l).
Proof.
  intros Q S. induction S as [|z l Hz Sl IH]; simpl.
  - constructor; [intros y []|constructor].
  - destruct (q_geb (snd x) (snd z)) eqn:E.
    + constructor; [|constructor; auto]. intros y [<-|Hy]; auto.
      apply (q_geb_trans (snd x) (snd z) (snd y)); auto; apply Q; simpl; auto.
    + constructor.
      * intros y Hy. apply insert_desc_In in Hy as [->|Hy]; auto.
        destruct (q_geb_total (snd z) (snd x)); auto. congruence.
      * apply IH. intros y [<-|Hy]; apply Q; simpl; auto.
Qed.
Lemma sort_desc_In l y : In y (sort_desc l) <-> In y l.
Proof. induction l as [|x l IH]; simpl; [tauto|]. rewrite insert_desc_In, IH. intuition. Qed.
Lemma sort_desc_sorted l : all_qpos l -> sorted_desc (sort_desc l).
Proof.
  induction l as [|x l IH]; intro Q; simpl; [constructor|]. apply insert_desc_sorted.
  - intros y Hy. destruct Hy as [E|Hy]; [subst; apply Q; left; reflexivity|].
    apply (proj1 (sort_desc_In _ _)) in Hy. apply Q. right; exact Hy.
  - apply IH. intros y Hy. apply Q. right; exact Hy.
Qed.

Fixpoint bestP (l : list (str * (N * N))) : option (str * (N * N)) :=
  match l with
  | [] => None
  | x :: l' => if P x then match bestP l' with
                           | Some y => if q_geb (snd x) (snd y) then Some x else Some y
                           | None => Some x end
               else bestP l'
  end.

(* the first acceptable element of a descending list dominates every acceptable element *)
Lemma find_sorted_max s y : sorted_desc s -> List.find P s = Some y ->
  forall z, In z s -> P z = true -> q_geb (snd y) (snd z) = true \/ z = y.
Proof.
  induction 1 as [|x l Hx Sl IH]; simpl; [discriminate|]. destruct (P x) eqn:Px.
  - intro E; inversion E; subst. intros z [<-|Hz] _; auto.
  - intros E z [<-|Hz] Pz; [congruence|]. apply IH; auto.
Qed.

Lemma find_insert_desc x s : all_qpos (x :: s) -> sorted_desc s ->
  List.find P (insert_desc x s) =
  if P x then match List.find P s with
              | Some y => if q_geb (snd x) (snd y) then Some x else Some y
              | None => Some x end
  else List.find P s.
Proof.
  intros Q S. induction S as [|z l Hz Sl IH]; simpl.
  - destruct (P x); reflexivity.
  - assert (Q': all_qpos (x :: l)) by (intros y [<-|Hy]; apply Q; simpl; auto).
    destruct (q_geb (snd x) (snd z)) eqn:E; simpl.
    + destruct (P x) eqn:Px; auto. destruct (P z) eqn:Pz.
      * rewrite E. reflexivity.
      * destruct (List.find P l) as [y|] eqn:F; auto.
        apply find_some in F as [Hy _].
        rewrite (q_geb_trans (snd x) (snd z) (snd y)); auto; apply Q; simpl; auto.
    + destruct (P z) eqn:Pz.
      * destruct (P x); auto. rewrite E. reflexivity.
      * apply IH; auto.
Qed.

Theorem find_sort_desc l : all_qpos l -> List.find P (sort_desc l) = bestP l.
Proof.
  induction l as [|x l IH]; intro Q; simpl; auto.
  rewrite find_insert_desc.
  - rewrite IH; [reflexivity|]. intros y Hy. apply Q. right; auto.
  - intros y [<-|Hy]; [apply Q; left; auto|]. apply (proj1 (sort_desc_In _ _)) in Hy. apply Q. right; auto.
  - apply sort_desc_sorted. intros y Hy. apply Q. right; auto.
Qed.
End H.

(* parsed q-values have positive denominators *)
Lemma parse_q_pos s q : parse_q s = Some q -> qpos q.
Proof.
  unfold parse_q, qpos. destruct (partition [46%N] s) as [[a b]|].
  - intro H.
    assert (G: forall x y, Some (x * 10 ^ N.of_nat (length b) + y, 10 ^ N.of_nat (length b))%N = Some q -> (0 < snd q)%N).
    { intros x y E. inversion E. simpl. apply N.neq_0_lt_0. apply N.pow_nonzero. lia. }
    destruct a, b; try discriminate;
      repeat match goal with H : context [match digits_val ?t 0 with _ => _ end] |- _ => destruct (digits_val t 0) end;
      try discriminate; eauto.
  - destruct s; [discriminate|]. destruct (digits_val (c :: s) 0); [|discriminate]. intro H; inversion H; simpl. lia.
Qed.
Lemma handle_part_pos part k q : handle_part part = Some (k, q) -> qpos q.
Proof.
  unfold handle_part. destruct (map strip (split_on 59%N part)) as [|key params]; [discriminate|].
  match goal with |- option_map _ (?g params) = _ -> _ => set (go := g) end.
  assert (G: forall ps q', go ps = Some q' -> qpos q').
  { induction ps as [|p rest IH]; intros q' H; simpl in H.
    - inversion H. unfold qpos. simpl. lia.
    - destruct (partition [61%N] p) as [[n v]|]; simpl in H.
      + destruct (str_eqb _ _); [eapply parse_q_pos; eauto|auto].
      + destruct (str_eqb _ _); [eapply parse_q_pos; eauto|auto]. }
  destruct (go params) as [q0|] eqn:E; simpl; [|discriminate]. intro H; inversion H; subst. eapply G; eauto.
Qed.
Lemma all_some_In {A} (l : list (option A)) r x : all_some l = Some r -> In x r -> In (Some x) l.
Proof.
  revert r; induction l as [|[a|] l IH]; simpl; intros r H Hin; try discriminate.
  - inversion H; subst. destruct Hin.
  - destruct (all_some l) as [r'|]; [|discriminate]. inversion H; subst. destruct Hin as [<-|Hin]; [left; reflexivity|right; eapply IH; eauto].
Qed.
Lemma qset_In k q d x : In x (qset k q d) -> x = (k, q) \/ In x d \/ exists q0, In (fst x, q0) d /\ snd x = q.
Proof.
  induction d as [|[k' q'] d IH]; simpl; [intros [<-|[]]; auto|].
  destruct (str_eqb_spec k k'); simpl.
  - intros [<-|H]; auto. subst. right. right. exists q'. simpl. auto.
  - intros [<-|H]; auto. destruct (IH H) as [E|[E|(q0 & E1 & E2)]]; auto. right. right. eauto.
Qed.
Lemma header_items_pos h items : header_items h = Some items -> all_qpos items.
Proof.
  unfold header_items. destruct (all_some (map handle_part (split_on 44%N h))) as [ps|] eqn:E; [|discriminate].
  intro H; inversion H; subst. clear H.
  assert (Qps: forall x, In x ps -> qpos (snd x)).
  { intros [k q] Hx. apply (all_some_In _ _ _ E) in Hx. apply in_map_iff in Hx as (part & Hp & _). eapply handle_part_pos; eauto. }
  clear E. assert (G: forall d, all_qpos d -> all_qpos (fold_left (fun d kq => qset (fst kq) (snd kq) d) ps d)).
  { induction ps as [|[k q] ps IH]; intros d Qd; simpl; auto. apply IH.
    - intros x Hx. apply Qps. right; auto.
    - intros x Hx. apply qset_In in Hx as [->|[Hx|(q0 & _ & ->)]]; auto; apply (Qps (k, q)); left; auto. }
  apply G. intros x [].
Qed.

(* C18_header: negotiation = the specification *)
Theorem negotiate_spec h : negotiate h = spec_negotiate h.
Proof.
  unfold negotiate, handle_header, spec_negotiate. destruct h as [[|c0 hs]|]; auto.
  unfold parse_header. destruct (header_items (c0 :: hs)) as [items|] eqn:E.
  - unfold header_items in E. destruct (all_some _) as [ps|] eqn:A; [|discriminate]. inversion E; subst. clear E.
    set (items := fold_left _ ps []).
    set (P := fun x : str * (N * N) => mem (canonical content_type_synonyms (fst x)) supported_content_types).
    assert (F: List.find (fun t => mem (canonical content_type_synonyms t) supported_content_types) (map fst (sort_desc items))
               = option_map fst (List.find P (sort_desc items))).
    { generalize (sort_desc items). induction l as [|x l IH]; simpl; auto. unfold P at 1. destruct (mem _ _); auto. }
    rewrite F. rewrite (find_sort_desc P).
    + assert (B: bestP P items = best supported_content_types content_type_synonyms items).
      { generalize items. induction items0 as [|x l IH]; simpl; auto. rewrite IH. reflexivity. }
      rewrite B. destruct (best _ _ items) as [x|]; reflexivity.
    + apply (header_items_pos (c0 :: hs)). unfold header_items. rewrite A. reflexivity.
  - unfold header_items in E. destruct (all_some _); [discriminate|reflexivity].
Qed.

(* ---- the relaxed predicate: any supported item of highest q is acceptable; without ties that is the specification ---- *)
Lemma q_geb_refl a : q_geb a a = true.
Proof. unfold q_geb. apply N.leb_refl. Qed.

(* bestP returns an acceptable element whose q dominates every acceptable element *)
Lemma bestP_max P l x : all_qpos l -> bestP P l = Some x ->
  In x l /\ P x = true /\ forall y, In y l -> P y = true -> q_geb (snd x) (snd y) = true.
Proof.
  revert x. induction l as [|z l IH]; intros x Q; cbn [bestP]; [discriminate|].
  assert (Ql: all_qpos l) by (intros y Hy; apply Q; right; exact Hy).
  assert (Qz: qpos (snd z)) by (apply Q; left; reflexivity).
  destruct (P z) eqn:Pz.
  - destruct (bestP P l) as [b|] eqn:B.
    + destruct (IH b Ql eq_refl) as (Hb & Pb & Mb).
      destruct (q_geb (snd z) (snd b)) eqn:E; intro H; inversion H; subst x; clear H.
      * split; [left; reflexivity|]. split; [exact Pz|]. intros y [<-|Hy] Py; [apply q_geb_refl|].
        apply (q_geb_trans (snd z) (snd b) (snd y)); auto.
      * split; [right; exact Hb|]. split; [exact Pb|]. intros y [<-|Hy] Py; [|auto].
        destruct (q_geb_total (snd b) (snd z)) as [G|G]; [exact G|congruence].
    + intro H; inversion H; subst x; clear H.
      split; [left; reflexivity|]. split; [exact Pz|]. intros y [<-|Hy] Py; [apply q_geb_refl|].
      exfalso. clear IH Q Ql. induction l as [|w l IHl]; [destruct Hy|]. cbn [bestP] in B.
      destruct Hy as [<-|Hy].
      * rewrite Py in B. destruct (bestP P l) as [b|]; [destruct (q_geb _ _)|]; discriminate.
      * destruct (P w); [destruct (bestP P l) as [b|]; [destruct (q_geb _ _)|]; discriminate|]. auto.
  - intro H. destruct (IH x Ql H) as (Hx & Px & Mx). split; [right; exact Hx|]. split; [exact Px|].
    intros y [<-|Hy] Py; [congruence|auto].
Qed.
Lemma bestP_none P l : bestP P l = None -> filter P l = [].
Proof.
  induction l as [|z l IH]; cbn [bestP filter]; auto. destruct (P z); auto.
  destruct (bestP P l) as [b|]; [destruct (q_geb _ _)|]; discriminate.
Qed.
Lemma best_bestP l : best supported_content_types content_type_synonyms l = bestP item_supported l.
Proof. induction l as [|x l IH]; cbn [best bestP]; auto. rewrite IH. reflexivity. Qed.

(* the specification's answer, unfolded: the best supported item, which is a top item of the supported ones *)
Lemma best_is_top items x : all_qpos items -> best supported_content_types content_type_synonyms items = Some x ->
  In x (supported_items items) /\ is_top (supported_items items) x = true.
Proof.
  intros Q B. rewrite best_bestP in B. destruct (bestP_max _ _ _ Q B) as (Hx & Px & Mx).
  unfold supported_items, is_top. split; [apply filter_In; auto|].
  apply forallb_forall. intros y Hy. apply filter_In in Hy as [Hy Py]. auto.
Qed.

Theorem negotiate_acceptable_spec : forall h, negotiate_acceptable h (spec_negotiate h) = true.
Proof.
  intros [[|c0 hs]|]; cbn [negotiate_acceptable spec_negotiate]; try apply str_eqb_refl.
  destruct (header_items (c0 :: hs)) as [items|] eqn:E; [|reflexivity].
  pose proof (header_items_pos _ _ E) as Q.
  destruct (best supported_content_types content_type_synonyms items) as [x|] eqn:B.
  - destruct (best_is_top _ _ Q B) as (Hx & Tx).
    remember (supported_items items) as sp eqn:S. destruct sp as [|s0 sup]; [destruct Hx|]. cbv iota.
    apply existsb_exists. exists x. split; [exact Hx|]. rewrite str_eqb_refl, Tx. reflexivity.
  - rewrite best_bestP in B. apply bestP_none in B. unfold supported_items. rewrite B. apply str_eqb_refl.
Qed.

(* without ties the top item is unique *)
Lemma no_ties_unique l a b : no_ties l = true -> In a l -> In b l ->
  q_geb (snd a) (snd b) = true -> q_geb (snd b) (snd a) = true -> a = b.
Proof.
  induction l as [|x l IH]; cbn [no_ties]; intros N Ha Hb Gab Gba; [destruct Ha|].
  apply andb_true_iff in N as [Nx Nl]. rewrite forallb_forall in Nx.
  destruct Ha as [<-|Ha], Hb as [<-|Hb]; auto.
  - specialize (Nx _ Hb). rewrite Gab, Gba in Nx. discriminate.
  - specialize (Nx _ Ha). rewrite Gab, Gba in Nx. discriminate.
Qed.

(* the relaxation only concerns ties: when no two supported items of the header have equal q, the only acceptable answer
   is the specification's (= the implementation's, negotiate_spec) *)
Theorem negotiate_acceptable_unique : forall h a,
  header_no_ties h = true -> negotiate_acceptable h a = true -> a = spec_negotiate h.
Proof.
  intros [[|c0 hs]|] a; cbn [negotiate_acceptable spec_negotiate header_no_ties].
  - intros _ H. destruct a as [x|]; [|discriminate]. apply str_eqb_eq in H. congruence.
  - destruct (header_items (c0 :: hs)) as [items|] eqn:E.
    + intros NT H. destruct a as [x|]; [|discriminate].
      pose proof (header_items_pos _ _ E) as Q.
      destruct (best supported_content_types content_type_synonyms items) as [b|] eqn:B.
      * destruct (best_is_top _ _ Q B) as (Hb & Tb).
        remember (supported_items items) as sp eqn:S. destruct sp as [|s0 sup]; [destruct Hb|]. cbv iota in H.
        apply existsb_exists in H as (t & Ht & G). apply andb_true_iff in G as [Ex Tt]. apply str_eqb_eq in Ex. subst x.
        unfold is_top in Tb, Tt. rewrite forallb_forall in Tb, Tt.
        rewrite (no_ties_unique _ t b NT Ht Hb (Tt _ Hb) (Tb _ Ht)). reflexivity.
      * rewrite best_bestP in B. apply bestP_none in B. unfold supported_items in H. rewrite B in H.
        apply str_eqb_eq in H. congruence.
    + intros _ H. destruct a; [discriminate|reflexivity].
  - intros _ H. destruct a as [x|]; [|discriminate]. apply str_eqb_eq in H. congruence.
Qed.
Print Assumptions negotiate_acceptable_spec.
Print Assumptions negotiate_acceptable_unique.

(* discover: the dictionary-of-sets loop equals the naive specification; validity, shape, cutoff, round trip. *)
From Coq Require Import Lia Permutation Sorted DecimalNat Decimal.
From Curies.model Require Import Str PyData Trie Conv Query Val Answer Spec CheckQ Discovery CheckD.
From Curies.proofs Require Import StrFacts TrieFacts DictFacts IndexFacts QueryFacts CheckFacts SortFacts LawFacts C01Facts.

(* ---- decimal printing is injective and never produces ':' ---- *)
Lemma uint_digits_inj u v : uint_digits u = uint_digits v -> u = v.
Proof.
  revert v; induction u; intros v H; destruct v; simpl in H; try discriminate; auto;
    injection H as H'; f_equal; auto.
Qed.
Lemma dec_inj n m : dec n = dec m -> n = m.
Proof.
  unfold dec. intro H. apply uint_digits_inj in H.
  rewrite <- (Unsigned.of_to n), <- (Unsigned.of_to m), H. reflexivity.
Qed.
Lemma uint_digits_range u c : In c (uint_digits u) -> (48 <= c <= 57)%N.
Proof. induction u; simpl; try contradiction; intros [E|H]; auto; subst; lia. Qed.
Lemma dec_no_colon n : ~ In 58%N (dec n).
Proof. unfold dec. intro H. apply uint_digits_range in H. lia. Qed.

(* ---- rsplit / classify ---- *)
Lemma rsplit1_some sep s a b : rsplit1 sep s = Some (a, b) -> s = a ++ sep ++ b.
Proof.
  revert a b; induction s as [|c t IH]; intros a b H; simpl in H.
  - destruct (prefixb sep []) eqn:E; [|discriminate]. inversion H; subst. destruct sep; [reflexivity|discriminate].
  - destruct (rsplit1 sep t) as [[a' b']|] eqn:E.
    + inversion H; subst. simpl. f_equal. apply IH; auto.
    + destruct (prefixb sep (c :: t)) eqn:P; [|discriminate]. inversion H; subst. simpl. apply prefixb_split; auto.
Qed.
Lemma endswith_app pre suf : endswith suf (pre ++ suf) = true.
Proof. unfold endswith. rewrite rev_app_distr. apply prefixb_app. Qed.

Section D.
Variable al : chr -> bool.

Lemma classify_some delims u p l : classify al delims u = Some (p, l) ->
  exists dl pre, In dl delims /\ p = pre ++ dl /\ u = p ++ l /\ isalnum al l = true.
Proof.
  induction delims as [|dl rest IH]; simpl; [discriminate|].
  destruct (rsplit1 dl u) as [[pre luid]|] eqn:E.
  - destruct (isalnum al luid) eqn:A.
    + intro H; inversion H; subst. exists dl, pre. repeat split; auto.
      apply rsplit1_some in E. rewrite E, app_assoc. reflexivity.
    + intro H. destruct (IH H) as (dl' & pre' & A1 & A2). exists dl', pre'. split; auto.
  - intro H. destruct (IH H) as (dl' & pre' & A1 & A2). exists dl', pre'. split; auto.
Qed.

(* ---- the dictionary of sets ---- *)
Definition build (L : list (str * str)) (d : dict (list str)) : dict (list str) :=
  fold_left (fun d pl => add_luid (fst pl) (snd pl) d) L d.

Definition Inv (d : dict (list str)) (L0 : list (str * str)) : Prop :=
  NoDup (dkeys d) /\
  forall p, match dget p d with
            | Some l => NoDup l /\ l <> [] /\ (forall x, In x l <-> In (p, x) L0)
            | None => forall x, ~ In (p, x) L0
            end.

Lemma Inv_step d L0 p x : Inv d L0 -> Inv (add_luid p x d) (L0 ++ [(p, x)]).
Proof.
  intros [ND H]. unfold add_luid. pose proof (H p) as Hp.
  destruct (dget p d) as [l|] eqn:E.
  - destruct Hp as (Nl & Ne & Hl). destruct (mem x l) eqn:M.
    + split; auto. intro q. specialize (H q). destruct (dget q d) as [lq|] eqn:Eq.
      * destruct H as (A & B & C). repeat split; auto; intro Hx.
        -- apply in_or_app. left. apply C; auto.
        -- apply in_app_or in Hx as [Hx|[Hx|[]]]; [apply C; auto|]. inversion Hx; subst.
           rewrite E in Eq. inversion Eq; subst. apply mem_In; auto.
      * intros y Hy. apply in_app_or in Hy as [Hy|[Hy|[]]]; [eapply H; eauto|]. inversion Hy; subst. congruence.
    + split; [apply dkeys_dset_nodup; auto|]. intro q. rewrite dget_dset. destruct (str_eqb_spec q p).
      * subst q. repeat split.
        -- apply NoDup_app_inv_rev; auto; [constructor; [intros []|constructor]|].
           intros y Hy [<-|[]]. apply mem_false in M. auto.
        -- destruct l; discriminate.
        -- intro Hy. apply in_app_or in Hy as [Hy|[<-|[]]]; apply in_or_app; [left; apply Hl; auto|right; left; auto].
        -- intro Hy. apply in_app_or in Hy as [Hy|[Hy|[]]]; apply in_or_app; [left; apply Hl; auto|inversion Hy; subst; right; left; auto].
      * specialize (H q). destruct (dget q d) as [lq|].
        -- destruct H as (A & B & C). repeat split; auto; intro Hx.
           ++ apply in_or_app. left. apply C; auto.
           ++ apply in_app_or in Hx as [Hx|[Hx|[]]]; [apply C; auto|]. inversion Hx; subst. congruence.
        -- intros y Hy. apply in_app_or in Hy as [Hy|[Hy|[]]]; [eapply H; eauto|]. inversion Hy; subst. congruence.
  - split; [apply dkeys_dset_nodup; auto|]. intro q. rewrite dget_dset. destruct (str_eqb_spec q p).
    + subst q. repeat split.
      * constructor; [intros []|constructor].
      * discriminate.
      * intros [<-|[]]. apply in_or_app. right; left; auto.
      * intro Hy. apply in_app_or in Hy as [Hy|[Hy|[]]]; [exfalso; eapply Hp; eauto|inversion Hy; subst; left; auto].
    + specialize (H q). destruct (dget q d) as [lq|].
      * destruct H as (A & B & C). repeat split; auto; intro Hx.
        -- apply in_or_app. left. apply C; auto.
        -- apply in_app_or in Hx as [Hx|[Hx|[]]]; [apply C; auto|]. inversion Hx; subst. congruence.
      * intros y Hy. apply in_app_or in Hy as [Hy|[Hy|[]]]; [eapply H; eauto|]. inversion Hy; subst. congruence.
Qed.
End D.

Section D2.
Variable al : chr -> bool.

Lemma Inv_build L : forall d L0, Inv d L0 -> Inv (build L d) (L0 ++ L).
Proof.
  induction L as [|[p x] L IH]; intros d L0 H; simpl.
  - rewrite app_nil_r. auto.
  - replace (L0 ++ (p, x) :: L) with ((L0 ++ [(p, x)]) ++ L) by (rewrite <- app_assoc; reflexivity).
    apply IH. apply Inv_step. auto.
Qed.
Lemma Inv_nil : Inv [] [].
Proof. split; [constructor|]. intro p. simpl. auto. Qed.
Lemma Inv_build0 L : Inv (build L []) L.
Proof. apply (Inv_build L [] [] Inv_nil). Qed.

Lemma Inv_keys d L p : Inv d L -> (In p (dkeys d) <-> In p (map fst L)).
Proof.
  intros [ND H]. specialize (H p). split.
  - intro Hk. destruct (dget p d) as [l|] eqn:E.
    + destruct H as (_ & Ne & C). destruct l as [|x l]; [congruence|].
      apply in_map_iff. exists (p, x). split; auto. apply C. left; auto.
    + apply dget_none_keys in E. contradiction.
  - intro Hm. apply in_map_iff in Hm as ([q x] & E & Hin). simpl in E. subst q.
    destruct (dget p d) as [l|] eqn:E; [eapply dget_in_keys; eauto|]. exfalso. eapply H; eauto.
Qed.
Lemma Inv_count d L p l : Inv d L -> dget p d = Some l -> length l = count_luids p L.
Proof.
  intros [ND H] E. specialize (H p). rewrite E in H. destruct H as (Nl & _ & C).
  unfold count_luids. apply nodup_same_length; auto; [apply dedup_NoDup|].
  intro x. rewrite dedup_In, in_map_iff. rewrite C. split.
  - intro Hin. exists (p, x). split; auto. apply filter_In. split; auto. simpl. apply str_eqb_refl.
  - intros ([q y] & Ey & Hf). simpl in Ey. subst y. apply filter_In in Hf as [Hin Hq]. simpl in Hq.
    apply str_eqb_eq in Hq. subst. auto.
Qed.

Lemma in_dict_dget {V} (d : dict V) k v : NoDup (dkeys d) -> In (k, v) d -> dget k d = Some v.
Proof.
  induction d as [|[a b] d IH]; simpl; intros N Hin0; [contradiction|]. destruct Hin0 as [E|Hin].
  - inversion E; subst. rewrite str_eqb_refl. reflexivity.
  - inversion N as [|? ? Hn Hd]; subst. destruct (str_eqb_spec k a).
    + subst. exfalso. apply Hn. apply in_map_iff. exists (a, v). auto.
    + apply IH; auto.
Qed.

Lemma Sorted_map_fst {V} (l : list (str * V)) :
  Sorted (fun a b => str_leb (fst a) (fst b) = true) l -> Sorted (fun a b => str_leb a b = true) (map fst l).
Proof.
  induction 1 as [|a l S IH Hd]; simpl; constructor; auto.
  destruct Hd; simpl; constructor; auto.
Qed.
Lemma map_filter_fst {V} (f : str * V -> bool) (g : str -> bool) (l : list (str * V)) :
  (forall kv, In kv l -> f kv = g (fst kv)) -> map fst (filter f l) = filter g (map fst l).
Proof.
  induction l as [|a l IH]; simpl; intro H; auto.
  rewrite (H a) by auto. destruct (g (fst a)); simpl; rewrite IH; auto.
Qed.

Definition cut_ok (cutoff : option nat) (n : nat) : bool := match cutoff with None => true | Some k => Nat.leb k n end.

Lemma kept_build cutoff L :
  kept_prefixes cutoff (build L []) = filter (fun p => cut_ok cutoff (count_luids p L)) (sort_uniq (map fst L)).
Proof.
  pose proof (Inv_build0 L) as I. set (d := build L []) in *.
  unfold kept_prefixes.
  rewrite (map_filter_fst _ (fun p => cut_ok cutoff (count_luids p L))).
  - f_equal. apply ssorted_unique.
    + apply sorted_nodup_strict.
      * apply Sorted_map_fst. unfold sort_by_key. apply sort_sorted. intros a b. apply str_leb_total.
      * eapply Permutation_NoDup; [apply Permutation_map; symmetry; apply sort_perm|]. apply I.
    + apply sort_uniq_ssorted.
    + intro x. rewrite sort_uniq_In, <- (Inv_keys d L x I). unfold dkeys.
      split; apply Permutation_in; apply Permutation_map; [|symmetry]; apply sort_perm.
  - intros [k v] Hin. simpl. unfold sort_by_key in Hin. apply sort_In in Hin.
    destruct I as [ND H]. pose proof (in_dict_dget d k v ND Hin) as E.
    rewrite (Inv_count d L k v (conj ND H) E). destruct cutoff; reflexivity.
Qed.

(* the model's learnt list *)
Definition mlearnt (recog : str -> bool) (delims : list str) (uris : list str) : list (str * str) :=
  flat_map (fun u => if skip recog u then [] else match classify al delims u with Some pl => [pl] | None => [] end) uris.

Lemma upl_build recog delims uris :
  uri_prefix_to_luids al recog delims uris = build (mlearnt recog (eff_delims delims) uris) [].
Proof.
  unfold uri_prefix_to_luids, mlearnt, build, eff_delims. generalize (@nil (str * list str)) as d.
  set (dl := match delims with [] => default_delimiters | _ => delims end).
  induction uris as [|u us IH]; intro d; simpl; auto.
  rewrite fold_left_app, IH. f_equal.
  destruct (skip recog u); simpl; auto. destruct (classify al dl u) as [[p l]|]; reflexivity.
Qed.

(* whatever the recogniser answers, the model's learnt list is the specification's *)
Lemma mlearnt_spec recog delims uris :
  mlearnt recog delims uris =
  flat_map (fun u => if skipped recog true u then [] else match classify al delims u with Some pl => [pl] | None => [] end) uris.
Proof. unfold mlearnt. apply flat_map_ext. intro u. unfold skip, skipped, recognised. simpl. reflexivity. Qed.

Theorem discover_records_spec recog delims cutoff meta uris :
  discover_records al recog delims cutoff meta uris = spec_records al recog true delims cutoff meta uris.
Proof.
  unfold discover_records, spec_records, spec_prefixes, learnt. f_equal.
  rewrite upl_build, kept_build, (mlearnt_spec recog _ _). reflexivity.
Qed.

(* the specification depends on the recogniser only through its answers on the input URIs *)
Lemma learnt_ext recog recog' ex dl us : (forall u, In u us -> recog u = recog' u) ->
  learnt al recog ex dl us = learnt al recog' ex dl us.
Proof.
  intro E. unfold learnt. induction us as [|u us IH]; simpl; auto.
  rewrite IH by (intros; apply E; right; auto). f_equal.
  unfold skipped, recognised. rewrite (E u) by (left; auto). reflexivity.
Qed.
Theorem spec_records_ext recog recog' ex dl cutoff meta us : (forall u, In u us -> recog u = recog' u) ->
  spec_records al recog ex dl cutoff meta us = spec_records al recog' ex dl cutoff meta us.
Proof. intro E. unfold spec_records, spec_prefixes. rewrite (learnt_ext recog recog' ex dl us E). reflexivity. Qed.
(* with a strict pre-existing converter over rs the recogniser is "some registered URI prefix of rs is a prefix of u" *)
Theorem discover_records_conv known_rs c delims cutoff meta uris :
  match known_rs with Some rs => mk_conv true [58%N] rs = Val c | None => True end ->
  discover_records al (recog_of (match known_rs with Some _ => Some c | None => None end)) delims cutoff meta uris =
  spec_records al (recog_rs known_rs) true delims cutoff meta uris.
Proof.
  intro H. rewrite discover_records_spec. apply spec_records_ext. intros u _. unfold recog_of, recog_rs.
  destruct known_rs as [rs|]; [rewrite (A_is_uri _ _ _ H)|]; reflexivity.
Qed.

(* ---- a function of the SET of URIs ---- *)
Lemma learnt_set known_rs ex dl us us' : (forall u, In u us <-> In u us') ->
  forall pl, In pl (learnt al known_rs ex dl us) <-> In pl (learnt al known_rs ex dl us').
Proof.
  intros E pl. unfold learnt. rewrite !in_flat_map. split; intros (u & Hu & Hin); exists u; split; auto; apply E; auto.
Qed.
Lemma count_luids_set p L L' : (forall pl, In pl L <-> In pl L') -> count_luids p L = count_luids p L'.
Proof.
  intro E. unfold count_luids. apply dedup_length_set. intro x. rewrite !in_map_iff.
  split; intros (pl & A & B); exists pl; split; auto; apply filter_In in B as [B1 B2]; apply filter_In; split; auto; apply E; auto.
Qed.
Lemma filter_ext_in' {A} (f g : A -> bool) l : (forall x, f x = g x) -> filter f l = filter g l.
Proof. intro E. induction l; simpl; auto. rewrite E, IHl. reflexivity. Qed.
Theorem spec_records_set known_rs ex dl cutoff meta us us' : (forall u, In u us <-> In u us') ->
  spec_records al known_rs ex dl cutoff meta us = spec_records al known_rs ex dl cutoff meta us'.
Proof.
  intro E. unfold spec_records, spec_prefixes. f_equal.
  pose proof (learnt_set known_rs ex dl us us' E) as EL.
  rewrite (sort_uniq_set (map fst (learnt al known_rs ex dl us)) (map fst (learnt al known_rs ex dl us'))).
  - apply filter_ext_in'. intro p. destruct cutoff; auto. f_equal. apply count_luids_set. auto.
  - intro x. rewrite !in_map_iff. split; intros (pl & A & B); exists pl; split; auto; apply EL; auto.
Qed.
End D2.

Section D3.
Variable al : chr -> bool.

(* ---- shape and validity of the result ---- *)
Lemma number_from_prefixes i meta ps : flat_map all_prefixes (number_from i meta ps) = map (fun k => meta ++ dec k) (seq i (length ps)).
Proof. revert i; induction ps as [|p ps IH]; intro i; simpl; auto. f_equal. apply IH. Qed.
Lemma number_from_uris i meta ps : flat_map all_uris (number_from i meta ps) = ps.
Proof. revert i; induction ps as [|p ps IH]; intro i; simpl; auto. f_equal. apply IH. Qed.
Lemma number_from_in i meta ps r : In r (number_from i meta ps) ->
  exists k, r_prefix r = meta ++ dec k /\ In (r_uri r) ps /\ r_psyn r = [] /\ r_usyn r = [].
Proof.
  revert i; induction ps as [|p ps IH]; intro i; simpl; [contradiction|]. intros [<-|H].
  - exists i. simpl. auto.
  - destruct (IH _ H) as (k & A & B & C). exists k. auto.
Qed.
Lemma number_from_has i meta ps p : In p ps -> exists r, In r (number_from i meta ps) /\ r_uri r = p.
Proof.
  revert i; induction ps as [|q ps IH]; intro i; simpl; [contradiction|]. intros [<-|H].
  - eexists; split; [left; reflexivity|reflexivity].
  - destruct (IH (S i) H) as (r & A & B). exists r. auto.
Qed.

Lemma ssorted_nodup l : StronglySorted slt l -> NoDup l.
Proof.
  induction 1 as [|a l S IH F]; constructor; auto. rewrite Forall_forall in F. intro Hin. apply (slt_irrefl a). auto.
Qed.
Lemma ssorted_filter f l : StronglySorted slt l -> StronglySorted slt (filter f l).
Proof.
  induction 1 as [|a l S IH F]; simpl; [constructor|]. destruct (f a); auto. constructor; auto.
  rewrite Forall_forall in *. intros x Hx. apply filter_In in Hx as [Hx _]. auto.
Qed.
Lemma spec_prefixes_ssorted known_rs ex dl cutoff us : StronglySorted slt (spec_prefixes al known_rs ex dl cutoff us).
Proof. unfold spec_prefixes. apply ssorted_filter. apply sort_uniq_ssorted. Qed.

Theorem spec_records_valid known_rs ex dl cutoff meta us :
  exists D, mk_conv true [58%N] (spec_records al known_rs ex dl cutoff meta us) = Val D.
Proof.
  unfold spec_records. apply nodup_mk_conv.
  - rewrite number_from_prefixes. apply FinFun.Injective_map_NoDup; [|apply seq_NoDup].
    intros a b E. apply app_inv_head in E. apply dec_inj; auto.
  - rewrite number_from_uris. apply ssorted_nodup. apply spec_prefixes_ssorted.
Qed.

(* p is kept iff it was learnt and at least `cutoff` distinct identifiers were seen for it *)
Theorem spec_prefixes_cutoff known_rs ex dl cutoff us p :
  In p (spec_prefixes al known_rs ex dl cutoff us) <->
  In p (map fst (learnt al known_rs ex dl us)) /\ cut_ok cutoff (count_luids p (learnt al known_rs ex dl us)) = true.
Proof. unfold spec_prefixes. rewrite filter_In, sort_uniq_In. unfold cut_ok. tauto. Qed.

(* every kept URI prefix ends with one of the delimiters *)
Theorem spec_prefixes_end known_rs ex dl cutoff us p :
  In p (spec_prefixes al known_rs ex dl cutoff us) -> ends_with_delim (eff_delims dl) p = true.
Proof.
  intro H. apply spec_prefixes_cutoff in H as [H _]. apply in_map_iff in H as ([q l] & E & Hin). simpl in E. subst q.
  unfold learnt in Hin. apply in_flat_map in Hin as (u & Hu & Hin).
  destruct (skipped known_rs ex u); [contradiction|].
  destruct (classify al (eff_delims dl) u) as [pl|] eqn:C; [|contradiction]. destruct Hin as [E|[]]; subst pl.
  apply classify_some in C as (d0 & pre & A & -> & _). unfold ends_with_delim. apply existsb_exists.
  exists d0. split; auto. apply endswith_app.
Qed.

(* ---- round trip (no cutoff) ---- *)
Theorem roundtrip known_rs ex dl cutoff meta us u p l D :
  match cutoff with None => True | Some k => k = 0 end -> ~ In 58%N meta ->
  In u us -> skipped known_rs ex u = false -> classify al (eff_delims dl) u = Some (p, l) ->
  mk_conv true [58%N] (spec_records al known_rs ex dl cutoff meta us) = Val D ->
  exists x, compress D u false false = Val (Some x) /\ expand D x false false = Val (Some u).
Proof.
  intros Hcut Hmeta Hu Hskip Hcl HD.
  set (rs := spec_records al known_rs ex dl cutoff meta us) in *.
  assert (Hp: In p (spec_prefixes al known_rs ex dl cutoff us)).
  { apply spec_prefixes_cutoff. split.
    - apply in_map_iff. exists (p, l). split; auto. unfold learnt. apply in_flat_map. exists u. split; auto.
      rewrite Hskip, Hcl. left; auto.
    - destruct cutoff as [k|]; simpl; auto. subst k. reflexivity. }
  destruct (number_from_has 1 meta _ p Hp) as (r & Hr & Hru). fold (spec_records al known_rs ex dl cutoff meta us) in Hr. fold rs in Hr.
  apply classify_some in Hcl as (d0 & pre & _ & Hpd & Hul & _).
  assert (Huri: is_uri D u = true).
  { apply (is_uri_iff _ _ _ u HD). exists r, p. repeat split; auto; [left; auto|]. rewrite Hul. apply prefixb_app. }
  assert (Hd: H_d [58%N] rs).
  { intros r' Hr'. apply delim_safe_single. unfold rs, spec_records in Hr'.
    apply number_from_in in Hr' as (k & -> & _). intro Hin. apply in_app_or in Hin as [H|H]; [auto|eapply dec_no_colon; eauto]. }
  destruct (compress D u false false) as [[x|]|e] eqn:Ec.
  - exists x. split; auto. destruct (C03_lossless _ _ _ HD u x Hd Ec) as (_ & E2 & _). rewrite E2.
    rewrite (A_std_uri _ _ _ HD). simpl. unfold sp_std_uri.
    destruct (longest_match rs u) as [[p' r']|] eqn:El.
    + apply longest_match_some in El as (A & B & C & _).
      unfold rs, spec_records in A. apply number_from_in in A as (_ & _ & _ & _ & Hus).
      unfold all_uris in B. rewrite Hus in B. destruct B as [<-|[]].
      rewrite <- (prefixb_split _ _ C). reflexivity.
    + exfalso. rewrite (A_is_uri _ _ _ HD) in Huri. unfold sp_is_uri in Huri. rewrite El in Huri. discriminate.
  - exfalso. apply (C07_is_uri _ _ _ HD u) in Huri. auto.
  - exfalso. rewrite (A_compress _ _ _ HD) in Ec. simpl in Ec. destruct (sp_compress rs [58%N] u); discriminate.
Qed.

(* compression alone needs no hypothesis on the metaprefix *)
Theorem compresses known_rs ex dl cutoff meta us u p l D :
  match cutoff with None => True | Some k => k = 0 end ->
  In u us -> skipped known_rs ex u = false -> classify al (eff_delims dl) u = Some (p, l) ->
  mk_conv true [58%N] (spec_records al known_rs ex dl cutoff meta us) = Val D ->
  exists x, compress D u false false = Val (Some x).
Proof.
  intros Hcut Hu Hskip Hcl HD.
  set (rs := spec_records al known_rs ex dl cutoff meta us) in *.
  assert (Hp: In p (spec_prefixes al known_rs ex dl cutoff us)).
  { apply spec_prefixes_cutoff. split.
    - apply in_map_iff. exists (p, l). split; auto. unfold learnt. apply in_flat_map. exists u. split; auto.
      rewrite Hskip, Hcl. left; auto.
    - destruct cutoff as [k|]; simpl; auto. subst k. reflexivity. }
  destruct (number_from_has 1 meta _ p Hp) as (r & Hr & Hru). fold (spec_records al known_rs ex dl cutoff meta us) in Hr. fold rs in Hr.
  apply classify_some in Hcl as (d0 & pre & _ & Hpd & Hul & _).
  assert (Huri: is_uri D u = true).
  { apply (is_uri_iff _ _ _ u HD). exists r, p. repeat split; auto; [left; auto|]. rewrite Hul. apply prefixb_app. }
  destruct (compress D u false false) as [[x|]|e] eqn:Ec.
  - eauto.
  - exfalso. apply (C07_is_uri _ _ _ HD u) in Huri. auto.
  - exfalso. rewrite (A_compress _ _ _ HD) in Ec. simpl in Ec. destruct (sp_compress rs [58%N] u); discriminate.
Qed.

(* URIs already recognised by the supplied converter contribute nothing *)
Theorem known_skip recog ex dl cutoff meta us :
  spec_records al recog ex dl cutoff meta us =
  spec_records al recog ex dl cutoff meta (filter (fun u => negb (recog u)) us).
Proof.
  unfold spec_records, spec_prefixes. 
  assert (E: learnt al recog ex dl us = learnt al recog ex dl (filter (fun u => negb (recog u)) us)).
  { unfold learnt. induction us as [|u us IH]; simpl; auto. unfold skipped at 1. unfold recognised. simpl.
    destruct (recog u) eqn:R; simpl; auto. unfold skipped at 2. unfold recognised. rewrite R. simpl. rewrite IH. reflexivity. }
  rewrite E. reflexivity.
Qed.
End D3.

(* known finding K1: the statement WITHOUT the GitHub exclusion is false of the faithful model *)
Lemma github_refuted :
  let al := (fun c => (48 <=? c) && (c <=? 57))%N in
  let u := (github ++ [47;111;47;114;47;105;115;115;117;101;115;47;49;50])%N in      (* https://github.com/o/r/issues/12 *)
  classify al default_delimiters u <> None /\
  exists D, discover al (fun _ => false) [] None [110;115]%N [u] = Val D /\ compress D u false false = Val None.
Proof. vm_compute. split; [discriminate|]. eexists. split; reflexivity. Qed.

(* Optional white space (SP / HTAB) inserted around the separators ',' ';' '=' of an Accept header, or at its
   beginning / end, does not change the negotiated media type.

   The relation:  ows_step h h'  = h' is h with ONE white-space character inserted at the beginning, at the end,
   immediately before a separator or immediately after a separator (separator = ',' ';' '=', ANY occurrence,
   no well-formedness hypothesis);  ows_equiv = reflexive-transitive closure of ows_step.

   Result: the GENERAL statement is true for the model as written (negotiate_ows).  What is NOT true is the
   stronger intermediate claim "the parsed dictionary is unchanged": a '=' in the media-type segment makes the
   key change ("a=b" -> "a =b"), see header_items_not_invariant.  The negotiation is nevertheless unchanged because
   no supported type / synonym contains a separator, so such keys are never selected.  The invariant used is
   therefore: the dictionary RESTRICTED TO THE SUPPORTED KEYS (fitems) is unchanged. *)
From Coq Require Import Lia Relations.
From Curies.model Require Import Str PyData Trie Conv Query Val Answer Spec CheckQ Mapping.
From Curies.proofs Require Import StrFacts MappingFacts.

Definition is_sep (c : chr) : bool := (N.eqb c 44 || N.eqb c 59 || N.eqb c 61)%N.

Inductive ows_step : str -> str -> Prop :=      (* one white-space character inserted *)
| ows_begin w s : is_ows w = true -> ows_step s (w :: s)
| ows_end w s : is_ows w = true -> ows_step s (s ++ [w])
| ows_before w a c b : is_ows w = true -> is_sep c = true -> ows_step (a ++ c :: b) (a ++ w :: c :: b)
| ows_after w a c b : is_ows w = true -> is_sep c = true -> ows_step (a ++ c :: b) (a ++ c :: w :: b).
Definition ows_equiv : str -> str -> Prop := clos_refl_trans str ows_step.

Definition has_sep (s : str) : bool := existsb is_sep s.

(* ---- characters ---- *)
Lemma ows_cases w : is_ows w = true -> w = 32%N \/ w = 9%N.
Proof. unfold is_ows. intro H. apply orb_true_iff in H as [H|H]; apply N.eqb_eq in H; auto. Qed.
Lemma sep_cases c : is_sep c = true -> c = 44%N \/ c = 59%N \/ c = 61%N.
Proof. unfold is_sep. intro H. apply orb_true_iff in H as [H|H]; [apply orb_true_iff in H as [H|H]|]; apply N.eqb_eq in H; auto. Qed.
Lemma sep_not_ows c : is_sep c = true -> is_ows c = false.
Proof. intro H. destruct (sep_cases c H) as [-> | [-> | ->]]; reflexivity. Qed.
Lemma ows_not_sep w : is_ows w = true -> is_sep w = false.
Proof. intro H. destruct (ows_cases w H) as [->| ->]; reflexivity. Qed.
Lemma ows_neq w c : is_ows w = true -> is_ows c = false -> N.eqb w c = false.
Proof. intros H1 H2. destruct (N.eqb_spec w c); auto. subst. congruence. Qed.

Lemma has_sep_app a b : has_sep (a ++ b) = has_sep a || has_sep b.
Proof. apply existsb_app. Qed.
Lemma has_sep_mid a c b : is_sep c = true -> has_sep (a ++ c :: b) = true.
Proof. intro H. rewrite has_sep_app. cbn [has_sep existsb]. rewrite H. apply orb_true_r. Qed.

(* ---- split without accumulator ---- *)
Fixpoint splt (sep : chr) (s : str) : list str :=
  match s with
  | [] => [[]]
  | c :: t => if N.eqb c sep then [] :: splt sep t
              else match splt sep t with x :: M => (c :: x) :: M | [] => [[c]] end
  end.
Lemma splt_ne sep s : exists x M, splt sep s = x :: M.
Proof.
  induction s as [|c t (x & M & IH)]; cbn [splt]; [eauto|].
  destruct (N.eqb c sep); [eauto|]. rewrite IH. eauto.
Qed.
Lemma split1_splt sep s : forall cur, split1 sep s cur = match splt sep s with x :: M => (rev cur ++ x) :: M | [] => [] end.
Proof.
  induction s as [|c t IH]; intro cur; cbn [split1 splt].
  - rewrite app_nil_r. reflexivity.
  - destruct (N.eqb c sep).
    + rewrite app_nil_r. f_equal. rewrite IH. destruct (splt_ne sep t) as (x & M & E). rewrite E. reflexivity.
    + rewrite IH. destruct (splt_ne sep t) as (x & M & E). rewrite E. cbn [rev]. rewrite <- app_assoc. reflexivity.
Qed.
Lemma split_on_splt sep s : split_on sep s = splt sep s.
Proof. unfold split_on. rewrite split1_splt. destruct (splt_ne sep s) as (x & M & E). rewrite E. reflexivity. Qed.

(* an edit of the tail that only changes the first field of the tail changes one field of the whole *)
Lemma splt_ctx sep (a : str) : forall u u' y y' M, splt sep u = y :: M -> splt sep u' = y' :: M ->
  exists L x, splt sep (a ++ u) = L ++ (x ++ y) :: M /\ splt sep (a ++ u') = L ++ (x ++ y') :: M.
Proof.
  induction a as [|c a IH]; intros u u' y y' M Hu Hu'.
  - exists [], []. cbn [app]. auto.
  - destruct (IH u u' y y' M Hu Hu') as (L & x & E & E'). cbn [app splt]. destruct (N.eqb c sep).
    + exists ([] :: L), x. rewrite E, E'. auto.
    + rewrite E, E'. destruct L as [|l L].
      * exists [], (c :: x). cbn [app]. auto.
      * exists ((c :: l) :: L), x. cbn [app]. auto.
Qed.
Lemma splt_sep sep (a b : str) : splt sep (a ++ sep :: b) = splt sep a ++ splt sep b.
Proof.
  induction a as [|c a IH]; cbn [app splt].
  - rewrite N.eqb_refl. reflexivity.
  - destruct (N.eqb c sep); [rewrite IH; reflexivity|]. rewrite IH.
    destruct (splt_ne sep a) as (x & M & E). rewrite E. reflexivity.
Qed.
Lemma splt_snoc sep (a : str) (w : chr) : N.eqb w sep = false ->
  exists L x, splt sep a = L ++ [x] /\ splt sep (a ++ [w]) = L ++ [x ++ [w]].
Proof.
  intro Hw. induction a as [|c a (L & x & E & E')]; cbn [app splt].
  - rewrite Hw. exists [], []. auto.
  - destruct (N.eqb c sep).
    + exists ([] :: L), x. rewrite E, E'. auto.
    + rewrite E, E'. destruct L as [|l L].
      * exists [], (c :: x). auto.
      * exists ((c :: l) :: L), x. auto.
Qed.

(* one insertion in s = one insertion in exactly one field of s.split(sep) *)
Lemma splt_step sep s s' : is_ows sep = false -> ows_step s s' ->
  exists L x x' M, splt sep s = L ++ x :: M /\ splt sep s' = L ++ x' :: M /\ ows_step x x'.
Proof.
  intros Hsep H. destruct H as [w s Hw|w s Hw|w a c b Hw Hc|w a c b Hw Hc].
  - destruct (splt_ne sep s) as (y & M & E). exists [], y, (w :: y), M. cbn [splt app].
    rewrite (ows_neq w sep Hw Hsep), E. repeat split; auto. constructor; auto.
  - destruct (splt_snoc sep s w (ows_neq w sep Hw Hsep)) as (L & x & E & E').
    exists L, x, (x ++ [w]), []. repeat split; auto. constructor; auto.
  - destruct (N.eqb_spec c sep) as [-> | Hne].
    + destruct (splt_snoc sep a w (ows_neq w sep Hw Hsep)) as (L & x & E & E').
      exists L, x, (x ++ [w]), (splt sep b). rewrite splt_sep, E.
      replace (a ++ w :: sep :: b) with ((a ++ [w]) ++ sep :: b) by (rewrite <- app_assoc; reflexivity).
      rewrite splt_sep, E', <- !app_assoc. repeat split; auto. constructor; auto.
    + apply N.eqb_neq in Hne. destruct (splt_ne sep b) as (y & M & E).
      destruct (splt_ctx sep a (c :: b) (w :: c :: b) (c :: y) (w :: c :: y) M) as (L & x & E1 & E2).
      * cbn [splt]. rewrite Hne, E. reflexivity.
      * cbn [splt]. rewrite (ows_neq w sep Hw Hsep), Hne, E. reflexivity.
      * exists L, (x ++ c :: y), (x ++ w :: c :: y), M. repeat split; auto. constructor; auto.
  - destruct (N.eqb_spec c sep) as [-> | Hne].
    + destruct (splt_ne sep b) as (y & M & E). exists (splt sep a), y, (w :: y), M.
      rewrite !splt_sep. cbn [splt]. rewrite (ows_neq w sep Hw Hsep), E. repeat split; auto. constructor; auto.
    + apply N.eqb_neq in Hne. destruct (splt_ne sep b) as (y & M & E).
      destruct (splt_ctx sep a (c :: b) (c :: w :: b) (c :: y) (c :: w :: y) M) as (L & x & E1 & E2).
      * cbn [splt]. rewrite Hne, E. reflexivity.
      * cbn [splt]. rewrite (ows_neq w sep Hw Hsep), Hne, E. reflexivity.
      * exists L, (x ++ c :: y), (x ++ c :: w :: y), M. repeat split; auto. constructor; auto.
Qed.

(* ---- strip ---- *)
Definition rstrip (s : str) : str := rev (lstrip (rev s)).
Lemma strip_rstrip s : strip s = rstrip (lstrip s).
Proof. reflexivity. Qed.
Lemma lstrip_ows (w : chr) (s : str) : is_ows w = true -> lstrip (w :: s) = lstrip s.
Proof. intro H. cbn [lstrip]. rewrite H. reflexivity. Qed.
Lemma lstrip_mid (a : str) (c : chr) (b : str) : is_ows c = false -> lstrip (a ++ c :: b) = lstrip a ++ c :: b.
Proof.
  intro Hc. induction a as [|x a IH]; cbn [app lstrip].
  - rewrite Hc. reflexivity.
  - destruct (is_ows x); auto.
Qed.
Lemma lstrip_snoc (a : str) (w : chr) : is_ows w = true ->
  (lstrip a = [] /\ lstrip (a ++ [w]) = []) \/ lstrip (a ++ [w]) = lstrip a ++ [w].
Proof.
  intro Hw. induction a as [|x a IH]; cbn [app lstrip].
  - rewrite Hw. auto.
  - destruct (is_ows x); auto.
Qed.
Lemma rstrip_mid (a : str) (c : chr) (b : str) : is_ows c = false -> rstrip (a ++ c :: b) = a ++ c :: rstrip b.
Proof.
  intro Hc. unfold rstrip. rewrite rev_app_distr. cbn [rev]. rewrite <- app_assoc. cbn [app].
  rewrite (lstrip_mid _ _ _ Hc). rewrite rev_app_distr. cbn [rev]. rewrite rev_involutive, <- app_assoc. reflexivity.
Qed.
Lemma rstrip_cons (w : chr) (b : str) : is_ows w = true ->
  (rstrip b = [] /\ rstrip (w :: b) = []) \/ rstrip (w :: b) = w :: rstrip b.
Proof.
  intro Hw. unfold rstrip. cbn [rev]. destruct (lstrip_snoc (rev b) w Hw) as [[E1 E2]|E].
  - left. rewrite E1, E2. auto.
  - right. rewrite E, rev_app_distr. reflexivity.
Qed.
Lemma strip_mid (a : str) (c : chr) (b : str) : is_ows c = false -> strip (a ++ c :: b) = lstrip a ++ c :: rstrip b.
Proof. intro Hc. rewrite strip_rstrip, (lstrip_mid _ _ _ Hc), (rstrip_mid _ _ _ Hc). reflexivity. Qed.
Lemma strip_begin (w : chr) (s : str) : is_ows w = true -> strip (w :: s) = strip s.
Proof. intro Hw. rewrite !strip_rstrip, (lstrip_ows _ _ Hw). reflexivity. Qed.
Lemma strip_end (w : chr) (s : str) : is_ows w = true -> strip (s ++ [w]) = strip s.
Proof.
  intro Hw. rewrite !strip_rstrip. destruct (lstrip_snoc s w Hw) as [[E1 E2]|E].
  - rewrite E1, E2. reflexivity.
  - rewrite E. unfold rstrip. rewrite rev_app_distr. cbn [rev app]. rewrite (lstrip_ows _ _ Hw). reflexivity.
Qed.

(* stripping a field: the insertion disappears, or it is an insertion next to a separator that is still there *)
Lemma strip_step x x' : ows_step x x' ->
  strip x' = strip x \/ (ows_step (strip x) (strip x') /\ has_sep (strip x) = true /\ has_sep (strip x') = true).
Proof.
  intro H. destruct H as [w s Hw|w s Hw|w a c b Hw Hc|w a c b Hw Hc].
  - left. apply strip_begin; auto.
  - left. apply strip_end; auto.
  - pose proof (sep_not_ows c Hc) as Hn.
    replace (a ++ w :: c :: b) with ((a ++ [w]) ++ c :: b) by (rewrite <- app_assoc; reflexivity).
    rewrite !(strip_mid _ _ _ Hn). destruct (lstrip_snoc a w Hw) as [[E1 E2]|E].
    + left. rewrite E1, E2. reflexivity.
    + right. rewrite E, <- app_assoc. cbn [app]. split; [constructor; auto|]. split.
      * apply has_sep_mid; auto.
      * replace (lstrip a ++ w :: c :: rstrip b) with ((lstrip a ++ [w]) ++ c :: rstrip b) by (rewrite <- app_assoc; reflexivity).
        apply has_sep_mid; auto.
  - pose proof (sep_not_ows c Hc) as Hn.
    rewrite !(strip_mid _ _ _ Hn). destruct (rstrip_cons w b Hw) as [[E1 E2]|E].
    + left. rewrite E1, E2. reflexivity.
    + right. rewrite E. split; [constructor; auto|]. split; apply has_sep_mid; auto.
Qed.

(* ---- name / value of a parameter: p.partition("=") ---- *)
Definition name_value (p : str) : str * str :=
  match partition [61%N] p with Some (n, v) => (n, v) | None => (p, []) end.
Fixpoint nv (p : str) : str * str :=
  match p with
  | [] => ([], [])
  | c :: t => if N.eqb c 61 then ([], t) else (c :: fst (nv t), snd (nv t))
  end.
Lemma name_value_nv p : name_value p = nv p.
Proof.
  unfold name_value. induction p as [|c t IH]; [reflexivity|].
  cbn [partition prefixb length skipn nv]. rewrite (N.eqb_sym 61 c). destruct (N.eqb c 61); cbn [andb]; [reflexivity|].
  destruct (partition [61%N] t) as [[n v]|]; rewrite <- IH; reflexivity.
Qed.
Lemma nv_ctx (a : str) :
  (forall u, nv (a ++ u) = (a ++ fst (nv u), snd (nv u))) \/ (exists n v, forall u, nv (a ++ u) = (n, v ++ u)).
Proof.
  induction a as [|c a IH].
  - left. intro u. cbn [app]. destruct (nv u); reflexivity.
  - cbn [app nv]. destruct (N.eqb c 61).
    + right. exists [], a. reflexivity.
    + destruct IH as [IH|(n & v & IH)].
      * left. intro u. rewrite IH. reflexivity.
      * right. exists (c :: n), v. intro u. rewrite IH. reflexivity.
Qed.
Lemma ows_not_eq w : is_ows w = true -> N.eqb w 61 = false.
Proof. intro H. destruct (ows_cases w H) as [->| ->]; reflexivity. Qed.

(* an insertion in a parameter is an insertion in its name or in its value *)
Lemma nv_step p p' : ows_step p p' ->
  (ows_step (fst (nv p)) (fst (nv p')) /\ snd (nv p') = snd (nv p)) \/
  (fst (nv p') = fst (nv p) /\ ows_step (snd (nv p)) (snd (nv p'))).
Proof.
  intro H. destruct H as [w s Hw|w s Hw|w a c b Hw Hc|w a c b Hw Hc].
  - left. cbn [nv]. rewrite (ows_not_eq w Hw). cbn [fst snd]. split; [constructor; auto|reflexivity].
  - destruct (nv_ctx s) as [E|(n & v & E)].
    + left. pose proof (E []) as E0. rewrite app_nil_r in E0. rewrite E0, (E [w]). cbn [nv fst snd].
      rewrite (ows_not_eq w Hw). cbn [fst snd]. split; [|reflexivity]. rewrite app_nil_r. constructor; auto.
    + right. pose proof (E []) as E0. rewrite !app_nil_r in E0. rewrite E0, (E [w]). cbn [fst snd].
      split; [reflexivity|]. constructor; auto.
  - destruct (nv_ctx a) as [E|(n & v & E)].
    + left. rewrite !E. cbn [nv]. rewrite (ows_not_eq w Hw). destruct (N.eqb c 61); cbn [fst snd].
      * split; [|reflexivity]. rewrite app_nil_r. constructor; auto.
      * split; [|reflexivity]. constructor; auto.
    + right. rewrite !E. cbn [fst snd]. split; [reflexivity|constructor; auto].
  - destruct (nv_ctx a) as [E|(n & v & E)].
    + rewrite !E. cbn [nv]. destruct (N.eqb c 61); cbn [fst snd].
      * right. split; [reflexivity|constructor; auto].
      * left. rewrite (ows_not_eq w Hw). cbn [fst snd]. split; [|reflexivity]. constructor; auto.
    + right. rewrite !E. cbn [fst snd]. split; [reflexivity|constructor; auto].
Qed.

(* ---- one parameter ---- *)
(* Some r: this is the q parameter and float() gives r (None = raises); None: not the q parameter *)
Definition param_q (p : str) : option (option (N * N)) :=
  let '(name, value) := name_value p in
  if str_eqb (map lower_ascii (strip name)) [113%N] then Some (parse_q (strip value)) else None.
Fixpoint goq (ps : list str) : option (N * N) :=
  match ps with
  | [] => Some (1, 1)%N
  | p :: rest =>
      let '(name, value) := match partition [61%N] p with Some (n, v) => (n, v) | None => (p, []) end in
      if str_eqb (map lower_ascii (strip name)) [113%N] then parse_q (strip value) else goq rest
  end.
Lemma handle_part_goq part : handle_part part =
  match map strip (split_on 59%N part) with [] => None | key :: params => option_map (fun q => (key, q)) (goq params) end.
Proof. reflexivity. Qed.
Lemma goq_cons p rest : goq (p :: rest) = match param_q p with Some r => r | None => goq rest end.
Proof.
  cbn [goq]. unfold param_q, name_value. destruct (partition [61%N] p) as [[n v]|]; destruct (str_eqb _ _); reflexivity.
Qed.
Lemma goq_congr A p p' B : param_q p = param_q p' -> goq (A ++ p :: B) = goq (A ++ p' :: B).
Proof.
  intro H. induction A as [|a A IH]; cbn [app]; rewrite !goq_cons.
  - rewrite H. reflexivity.
  - rewrite IH. reflexivity.
Qed.

Lemma digit_not_sep c : ((48 <=? c) && (c <=? 57))%N = true -> is_sep c = false.
Proof.
  intro H. apply andb_true_iff in H as [H1 H2]. apply N.leb_le in H1, H2. unfold is_sep.
  destruct (N.eqb_spec c 44), (N.eqb_spec c 59), (N.eqb_spec c 61); try lia; reflexivity.
Qed.
Lemma digits_val_has_sep s : forall acc, has_sep s = true -> digits_val s acc = None.
Proof.
  induction s as [|c t IH]; intros acc H; [discriminate|]. cbn [digits_val].
  destruct ((48 <=? c) && (c <=? 57))%N eqn:D; [|reflexivity].
  apply IH. cbn [has_sep existsb] in H. rewrite (digit_not_sep c D) in H. exact H.
Qed.
(* float() of a string that contains a separator raises *)
Lemma parse_q_has_sep s : has_sep s = true -> parse_q s = None.
Proof.
  intro H. unfold parse_q. destruct (partition [46%N] s) as [[a b]|] eqn:E.
  - apply partition_some in E as [-> _]. rewrite !has_sep_app in H. cbn [has_sep existsb is_sep] in H.
    change (has_sep a || (false || has_sep b) = true) in H. cbn [orb] in H.
    apply orb_true_iff in H as [H|H].
    + rewrite (digits_val_has_sep a 0%N H). destruct a, b; reflexivity.
    + rewrite (digits_val_has_sep b 0%N H). destruct a, b; try reflexivity; destruct (digits_val _ _); reflexivity.
  - rewrite (digits_val_has_sep s 0%N H). destruct s; reflexivity.
Qed.
(* a name that contains a separator is not "q" *)
Lemma name_has_sep n : has_sep n = true -> str_eqb (map lower_ascii n) [113%N] = false.
Proof.
  intro H. destruct n as [|c1 [|c2 r]]; [discriminate| |].
  - cbn [has_sep existsb] in H. rewrite orb_false_r in H. destruct (sep_cases c1 H) as [-> | [-> | ->]]; reflexivity.
  - cbn [map str_eqb]. apply andb_false_r.
Qed.

Lemma param_q_step x x' : ows_step x x' -> param_q (strip x') = param_q (strip x).
Proof.
  intro H. destruct (strip_step x x' H) as [E|(S & _ & _)]; [rewrite E; reflexivity|].
  unfold param_q. rewrite !name_value_nv. destruct (nv_step _ _ S) as [[Sn Ev]|[En Sv]].
  - destruct (nv (strip x)) as [n v], (nv (strip x')) as [n' v']. cbn [fst snd] in *. subst v'.
    destruct (strip_step n n' Sn) as [E|(_ & H1 & H2)]; [rewrite E; reflexivity|].
    rewrite (name_has_sep _ H1), (name_has_sep _ H2). reflexivity.
  - destruct (nv (strip x)) as [n v], (nv (strip x')) as [n' v']. cbn [fst snd] in *. subst n'.
    destruct (strip_step v v' Sv) as [E|(_ & H1 & H2)]; [rewrite E; reflexivity|].
    rewrite (parse_q_has_sep _ H1), (parse_q_has_sep _ H2). reflexivity.
Qed.

(* ---- one part ---- *)
(* the keys the negotiation can select *)
Definition Pk (k : str) : bool := mem (canonical content_type_synonyms k) supported_content_types.
(* no supported media type and no synonym contains ',' ';' or '=' *)
Lemma Pk_no_sep k : has_sep k = true -> Pk k = false.
Proof.
  intro H. unfold Pk, canonical, content_type_synonyms. cbn [dget].
  repeat match goal with |- context [str_eqb k ?l] =>
    destruct (str_eqb_spec k l) as [-> | _]; [vm_compute in H; discriminate|] end.
  unfold supported_content_types. cbn [mem existsb].
  repeat match goal with |- context [str_eqb k ?l] =>
    destruct (str_eqb_spec k l) as [-> | _]; [vm_compute in H; discriminate|] end.
  reflexivity.
Qed.

(* what the negotiation can see of a handled part *)
Definition Rkq (x y : str * (N * N)) : Prop :=
  snd x = snd y /\ (fst x = fst y \/ (Pk (fst x) = false /\ Pk (fst y) = false)).
Definition Ropt (x y : option (str * (N * N))) : Prop :=
  match x, y with
  | None, None => True
  | Some a, Some b => Rkq a b
  | _, _ => False
  end.
Lemma Ropt_refl x : Ropt x x.
Proof. destruct x as [a|]; cbn; [split; auto|auto]. Qed.

Lemma Forall2_Ropt_refl l : Forall2 Ropt l l.
Proof. induction l; constructor; [apply Ropt_refl|assumption]. Qed.

Lemma part_step part part' : ows_step part part' -> Ropt (handle_part part) (handle_part part').
Proof.
  intro H. rewrite !handle_part_goq, !split_on_splt.
  destruct (splt_step 59%N part part' eq_refl H) as (L & x & x' & M & E & E' & S). rewrite E, E'.
  rewrite !map_app. cbn [map]. destruct L as [|l L]; cbn [map app].
  - (* the media-type field *)
    destruct (goq (map strip M)) as [q|]; cbn [option_map Ropt]; [|exact I].
    split; [reflexivity|]. cbn [fst]. destruct (strip_step x x' S) as [Ek|(_ & H1 & H2)]; [left; auto|].
    right. split; apply Pk_no_sep; auto.
  - (* a parameter *)
    rewrite (goq_congr _ (strip x) (strip x')); [apply Ropt_refl|]. symmetry. apply param_q_step. exact S.
Qed.

(* ---- the header ---- *)
Definition fP (x : str * (N * N)) : bool := Pk (fst x).
Definition add_item (d : list (str * (N * N))) (kq : str * (N * N)) := qset (fst kq) (snd kq) d.
Lemma filter_fP_cons k q d : filter fP ((k, q) :: d) = if Pk k then (k, q) :: filter fP d else filter fP d.
Proof. reflexivity. Qed.
Lemma filter_qset k q d : filter fP (qset k q d) = if Pk k then qset k q (filter fP d) else filter fP d.
Proof.
  induction d as [|[k' q'] d IH]; cbn [qset].
  - rewrite filter_fP_cons. cbn [filter]. destruct (Pk k); reflexivity.
  - destruct (str_eqb_spec k k') as [-> | Hne]; rewrite !filter_fP_cons.
    + destruct (Pk k'); [|reflexivity]. cbn [qset]. rewrite str_eqb_refl. reflexivity.
    + rewrite IH. destruct (Pk k'), (Pk k); try reflexivity.
      cbn [qset]. destruct (str_eqb_spec k k'); [contradiction|reflexivity].
Qed.
Lemma fold_items_congr ps ps' : Forall2 Rkq ps ps' -> forall d d', filter fP d = filter fP d' ->
  filter fP (fold_left add_item ps d) = filter fP (fold_left add_item ps' d').
Proof.
  induction 1 as [|[k q] [k' q'] ps ps' (Eq & Hk) _ IH]; intros d d' Hd; cbn [fold_left]; [exact Hd|].
  apply IH. unfold add_item. cbn [fst snd] in *. subst q'. rewrite !filter_qset.
  destruct Hk as [-> | [H1 H2]].
  - rewrite Hd. reflexivity.
  - rewrite H1, H2. exact Hd.
Qed.
Lemma all_some_congr l l' : Forall2 Ropt l l' ->
  match all_some l, all_some l' with
  | None, None => True
  | Some ps, Some ps' => Forall2 Rkq ps ps'
  | _, _ => False
  end.
Proof.
  induction 1 as [|x y l l' Hxy _ IH]; cbn [all_some]; [constructor|].
  destruct x as [a|], y as [b|]; cbn [Ropt] in Hxy; try contradiction; [|exact I].
  destruct (all_some l), (all_some l'); try contradiction; [|exact I]. constructor; auto.
Qed.

(* the parsed dictionary restricted to the keys the negotiation can select *)
Definition fitems (h : str) : option (list (str * (N * N))) := option_map (filter fP) (header_items h).

Theorem fitems_step h h' : ows_step h h' -> fitems h' = fitems h.
Proof.
  intro H. unfold fitems, header_items. rewrite !split_on_splt.
  destruct (splt_step 44%N h h' eq_refl H) as (L & x & x' & M & E & E' & S). rewrite E, E'.
  assert (F: Forall2 Ropt (map handle_part (L ++ x :: M)) (map handle_part (L ++ x' :: M))).
  { rewrite !map_app. cbn [map]. apply Forall2_app; [|constructor; [apply part_step; exact S|]].
    - apply Forall2_Ropt_refl.
    - apply Forall2_Ropt_refl. }
  apply all_some_congr in F. destruct (all_some _) as [ps|], (all_some _) as [ps'|]; try contradiction; [|reflexivity].
  cbn [option_map]. f_equal. symmetry. apply (fold_items_congr ps ps' F [] []). reflexivity.
Qed.

Lemma best_filter l : best supported_content_types content_type_synonyms (filter fP l)
                      = best supported_content_types content_type_synonyms l.
Proof.
  induction l as [|x l IH]; [reflexivity|]. cbn [filter best]. unfold fP at 1. unfold Pk.
  destruct (mem (canonical content_type_synonyms (fst x)) supported_content_types) eqn:E; [|exact IH].
  cbn [best]. rewrite E, IH. reflexivity.
Qed.
(* the specification reads the header through fitems only; the special case of the empty header agrees with it *)
Lemma spec_fitems h : spec_negotiate (Some h) =
  match fitems h with
  | None => None
  | Some items => match best supported_content_types content_type_synonyms items with
                  | Some x => Some (canonical content_type_synonyms (fst x))
                  | None => Some default_content_type end
  end.
Proof.
  destruct h as [|c h]; [vm_compute; reflexivity|].
  unfold spec_negotiate, fitems. destruct (header_items (c :: h)) as [items|]; [|reflexivity].
  cbn [option_map]. rewrite best_filter. reflexivity.
Qed.

Theorem negotiate_ows_step h h' : ows_step h h' -> negotiate (Some h') = negotiate (Some h).
Proof. intro H. rewrite !negotiate_spec, !spec_fitems, (fitems_step h h' H). reflexivity. Qed.

(* MAIN THEOREM: true in full generality for the model as written *)
Theorem negotiate_ows : forall h h', ows_equiv h h' -> negotiate (Some h') = negotiate (Some h).
Proof.
  intros h h' H. induction H as [h h' H| |h1 h2 h3 _ IH1 _ IH2].
  - apply negotiate_ows_step; exact H.
  - reflexivity.
  - congruence.
Qed.
(* same for the specification and for the two-sided (insert or delete) closure *)
Corollary spec_negotiate_ows h h' : ows_equiv h h' -> spec_negotiate (Some h') = spec_negotiate (Some h).
Proof. intro H. rewrite <- !negotiate_spec. apply negotiate_ows; exact H. Qed.
Definition ows_equiv_sym : str -> str -> Prop := clos_refl_sym_trans str ows_step.
Theorem negotiate_ows_sym h h' : ows_equiv_sym h h' -> negotiate (Some h') = negotiate (Some h).
Proof.
  intro H. induction H as [h h' H| |h h' _ IH|h1 h2 h3 _ IH1 _ IH2].
  - apply negotiate_ows_step; exact H.
  - reflexivity.
  - congruence.
  - congruence.
Qed.
(* a malformed q-value stays malformed and vice versa (negotiate = None is the ValueError) *)
Corollary negotiate_ows_error h h' : ows_equiv h h' -> (negotiate (Some h') = None <-> negotiate (Some h) = None).
Proof. intro H. rewrite (negotiate_ows h h' H). tauto. Qed.

(* ---- findings about neighbouring statements ---- *)
(* The parsed dictionary itself is NOT invariant: a '=' in the media-type field is a separator occurrence of the
   relation, and white space next to it stays inside the key.  "a=b" -> "a =b". *)
Theorem header_items_not_invariant : exists h h', ows_step h h' /\ header_items h' <> header_items h.
Proof.
  exists [97; 61; 98]%N, [97; 32; 61; 98]%N. split.
  - exact (ows_before 32%N [97%N] 61%N [98%N] eq_refl eq_refl).
  - vm_compute. discriminate.
Qed.
(* ... and so the sorted list parse_header returns is not invariant either; only its supported members are. *)
Theorem parse_header_not_invariant : exists h h', ows_step h h' /\ parse_header h' <> parse_header h.
Proof.
  exists [97; 61; 98]%N, [97; 32; 61; 98]%N. split.
  - exact (ows_before 32%N [97%N] 61%N [98%N] eq_refl eq_refl).
  - vm_compute. discriminate.
Qed.
(* White space that is not next to a separator is outside the relation, and does matter:
   "text/csv;q=0.5" negotiates text/csv, "text/csv;q=0. 5" is a ValueError. *)
Theorem ows_inside_value_matters :
  negotiate (Some [116;101;120;116;47;99;115;118;59;113;61;48;46;53]%N) = Some ct_csv /\
  negotiate (Some [116;101;120;116;47;99;115;118;59;113;61;48;46;32;53]%N) = None.
Proof. split; vm_compute; reflexivity. Qed.
(* a usable instance: "text/csv;q=0.5,text/json" and " text/csv ;\tq = 0.5 , text/json " *)
Example ows_equiv_example :
  ows_equiv [116;101;120;116;47;99;115;118;59;113;61;48;46;53;44;116;101;120;116;47;106;115;111;110]%N
            [32;116;101;120;116;47;99;115;118;32;59;9;113;32;61;32;48;46;53;32;44;32;116;101;120;116;47;106;115;111;110;32]%N.
Proof.
  eapply rt_trans; [apply rt_step; exact (ows_begin 32%N _ eq_refl)|].
  eapply rt_trans; [apply rt_step; exact (ows_end 32%N _ eq_refl)|].
  eapply rt_trans; [apply rt_step; exact (ows_before 32%N [32;116;101;120;116;47;99;115;118]%N 59%N _ eq_refl eq_refl)|].
  eapply rt_trans; [apply rt_step; exact (ows_after 9%N [32;116;101;120;116;47;99;115;118;32]%N 59%N _ eq_refl eq_refl)|].
  eapply rt_trans; [apply rt_step; exact (ows_before 32%N [32;116;101;120;116;47;99;115;118;32;59;9;113]%N 61%N _ eq_refl eq_refl)|].
  eapply rt_trans; [apply rt_step; exact (ows_after 32%N [32;116;101;120;116;47;99;115;118;32;59;9;113;32]%N 61%N _ eq_refl eq_refl)|].
  eapply rt_trans; [apply rt_step; exact (ows_before 32%N [32;116;101;120;116;47;99;115;118;32;59;9;113;32;61;32;48;46;53]%N 44%N _ eq_refl eq_refl)|].
  apply rt_step. exact (ows_after 32%N [32;116;101;120;116;47;99;115;118;32;59;9;113;32;61;32;48;46;53;32]%N 44%N _ eq_refl eq_refl).
Qed.

Print Assumptions negotiate_ows.
Print Assumptions negotiate_ows_step.
Print Assumptions fitems_step.
Print Assumptions spec_negotiate_ows.
Print Assumptions negotiate_ows_sym.
Print Assumptions negotiate_ows_error.
Print Assumptions header_items_not_invariant.
Print Assumptions parse_header_not_invariant.
Print Assumptions ows_inside_value_matters.
Print Assumptions ows_equiv_example.

(* Extraction of the executable model and the property predicates.  ExtrOcamlBasic only:
   bool/option/unit/prod/list/sumbool map to the OCaml types; N, Z, nat, positive stay Coq's inductive types.
   Run from ocaml/gen so that model.ml / model.mli land there. *)
Require Extraction.
Require Import ExtrOcamlBasic.
From Curies.model Require Import Dispatch.
Extraction Language OCaml.
Extraction "model.ml" dispatch.

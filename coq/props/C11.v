(* C11 -- CURIE-prefix remapping renames records without losing information.
   The model follows the code: _order_curie_remapping (three duplicate checks, sorted() shortcut, layered topological
   ordering) and the main loop on the records of a private copy, reading the ORIGINAL synonym index and scanning the
   CURRENT records.  swf c: c is a consistent strict converter; NoDup (map fst m): m is a dictionary.
   frame_of r = (uri_prefix, uri_prefix_synonyms, pattern). *)
From Coq Require Import Permutation.
From Curies.model Require Import Str PyData Trie Conv Query Val Answer Spec CheckQ Mutate Reconcile.
From Curies.proofs Require Import StrFacts IndexFacts QueryFacts C04Facts MutateFacts ReconcileFacts CurieFacts.
From Curies.model Require Import CheckR.
From Curies.proofs Require Import PModelR11.

(* either one of the documented errors, or a strict converter of the same size whose records keep exactly their URI
   side, in which every CURIE prefix known before is still known *)
Theorem C11_main : forall c m, swf c -> NoDup (map fst m) ->
  (exists e, remap_curie_prefixes c m = Raise e /\ documented e) \/
  (exists R rs, remap_curie_prefixes c m = Val R /\ recs R = sort_records rs /\ swf R /\
     length rs = length (recs c) /\
     Permutation (map frame_of rs) (map frame_of (recs c)) /\
     (forall p, (exists r, In r (recs c) /\ In p (all_prefixes r)) -> exists r', In r' rs /\ In p (all_prefixes r'))).
Proof. exact remap_curie_main. Qed.
Print Assumptions C11_main.

(* the ordering: only documented errors; a permutation of the remapping; a pair a->b precedes every pair k->a *)
Theorem C11_order_errors : forall c m e, order_curie_remapping c m = Raise e -> documented e.
Proof. exact order_errors. Qed.
Print Assumptions C11_order_errors.
Theorem C11_order_perm : forall c m ordering, order_curie_remapping c m = Val ordering -> Permutation ordering m.
Proof. exact order_perm. Qed.
Print Assumptions C11_order_perm.
Theorem C11_order_topological : forall c m ordering, NoDup (map fst m) -> order_curie_remapping c m = Val ordering ->
  forall a b k, In (a, b) m -> In (k, a) m -> (k, a) <> (a, b) -> exists l1 l2, ordering = l1 ++ (a, b) :: l2 /\ In (k, a) l2.
Proof. exact order_topo. Qed.
Print Assumptions C11_order_topological.

(* the loop invariant: URI side and size fixed, strictness kept by every step, nothing lost except names waiting for
   the applicable pair that takes them over *)
Theorem C11_invariant : forall c m ordering, swf c -> NoDup (map fst m) -> order_curie_remapping c m = Val ordering ->
  forall pre rem, ordering = pre ++ rem ->
  let cur := fold_left (step_cur c m (inter (map fst m) (map snd m))) pre (cur0 c) in
  Frame (recs c) cur /\ Strict cur /\
  forall p, knownc (cur0 c) p -> knownc cur p \/ exists k, In (k, p) rem /\ std c k <> None.
Proof. exact none_lost_fold. Qed.
Print Assumptions C11_invariant.

(* one pair old->new: applied when old is known and new unused in the current records; skipped otherwise *)
Theorem C11_applied : forall c m inter cur old new orig rc, std c old = Some orig ->
  List.find (fun or : str * record => str_eqb (fst or) orig) cur = Some (orig, rc) -> cur_get_record cur new = None ->
  step_cur c m inter cur (old, new) = set_cur orig (renamed rc old new (handover_cond c m inter old)) cur /\
  r_prefix (renamed rc old new (handover_cond c m inter old)) = new.
Proof. exact pair_applied. Qed.
Print Assumptions C11_applied.
Theorem C11_skipped_unknown : forall c m inter cur old new, std c old = None -> step_cur c m inter cur (old, new) = cur.
Proof. exact pair_skipped_unknown. Qed.
Print Assumptions C11_skipped_unknown.
Theorem C11_skipped_clash : forall c m inter cur old new orig o2 x2, std c old = Some orig ->
  cur_get_record cur new = Some (o2, x2) -> o2 <> orig -> step_cur c m inter cur (old, new) = cur.
Proof. exact pair_skipped_clash. Qed.
Print Assumptions C11_skipped_clash.
(* old names become synonyms, unless handed over to the record of an applicable pair *)
Theorem C11_old_names_kept : forall rc old new h x, In x (all_prefixes rc) -> x <> old \/ h = false \/ old = new ->
  In x (all_prefixes (renamed rc old new h)).
Proof. exact renamed_keeps. Qed.
Print Assumptions C11_old_names_kept.

(* the pre-repair hand-over branch lost prefixes (defect D4): dropping `old` unconditionally and not keeping the previous
   canonical prefix.  Witness: record b, remapping {a->b, b->c} with a unknown. *)
Definition r (p u : str) ps us := {| r_prefix := p; r_uri := u; r_psyn := ps; r_usyn := us; r_pat := None |}.
Example C11_nonvacuous :
  (exists c, mk_conv true [58] [r [120] [104] [[98]] []; r [97] [105] [] []] = Val c /\
    (* x(syn b), a with {a->b, b->c}: b is handed over to a's record, x keeps its name as a synonym of c (defect D4 lost x) *)
    (exists R, remap_curie_prefixes c [([97], [98]); ([98], [99])] = Val R /\
       recs R = [r [98] [105] [[97]] []; r [99] [104] [[120]] []]) /\
    remap_curie_prefixes c [([97], [120]); ([120], [97])] = Raise ECycleDetected /\
    (* two pairs onto the same unknown name: the first is applied, the second skipped *)
    (exists R, remap_curie_prefixes c [([97], [122]); ([120], [122])] = Val R /\
       recs R = [r [120] [104] [[98]] []; r [122] [105] [[97]] []]))%N.
Proof.
  eexists. split; [vm_compute; reflexivity|]. split; [eexists; split; vm_compute; reflexivity|]. split; [vm_compute; reflexivity|].
  eexists; split; vm_compute; reflexivity.
Qed.

(* the executable predicate of the run (exactly the rejection that the naive specification spec_remap_error predicts, or: consistent strict result of the same size, URI side of every
   record kept, nothing lost, nothing invented, applicable pairs applied, clashing pairs skipped) accepts the model's own
   observation on every valid case *)
Theorem C11_P_model : forall k : rcase, valid_r k = true ->
  (match rc_op k with DRemapCurie _ => True | _ => False end) -> P_C11 k (model_robs k) = true.
Proof. exact P_C11_model. Qed.
Print Assumptions C11_P_model.

(* which of the documented errors is raised, and when: the validation's outcome is the one a naive specification on the records
   predicts -- 11 DuplicateKeys (two keys name one record), else 12 DuplicateValues (two values name one record), else 13
   InconsistentMapping (one record named by two strings among the keys and the values that do not belong to their own key's record),
   else 14 CycleDetected (following key -> value returns to a key), else the remapping is applied *)
Theorem C11_error_exact : forall rs0 c m, mk_conv true [58%N] rs0 = Val c -> NoDup (map fst m) ->
  match spec_remap_error rs0 m with
  | Some e => exists err, order_curie_remapping c m = Raise err /\ derive_code (@Raise conv err) = e
  | None => exists ordering, order_curie_remapping c m = Val ordering end.
Proof. exact order_code. Qed.
Print Assumptions C11_error_exact.

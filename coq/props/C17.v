(* C17 -- the resolver redirects exactly where expand points, on both web frameworks.
   The handler is the same three lines in both frameworks (after repair D7); the routing layer (Werkzeug / Starlette),
   percent-decoding and Location quoting are runtime and are exercised by the correspondence run only. *)
From Curies.model Require Import Str PyData Trie Conv Query Val Answer Spec CheckQ Resolver.
From Curies.proofs Require Import StrFacts IndexFacts QueryFacts LawFacts ResolverFacts.

Theorem C17_response : forall d rs c, mk_conv true d rs = Val c -> forall rest, request_ok d rest = true ->
  vresponse (resolve c rest) = spec_response rs d rest.
Proof. exact resolve_spec. Qed.
Print Assumptions C17_response.

(* known prefix (canonical or synonym): 302 with Location = expand of that CURIE; the split is at the FIRST delimiter,
   so identifiers containing '/' or the delimiter itself are passed whole *)
Theorem C17_known : forall d rs c, mk_conv true d rs = Val c -> forall p i r,
  delim_safe d p = true -> p <> [] -> has_slash p = false -> i <> [] -> In r rs -> In p (all_prefixes r) ->
  resolve c (p ++ d ++ i) = Redirect302 (r_uri r ++ i) /\ expand c (p ++ d ++ i) false false = Val (Some (r_uri r ++ i)).
Proof. exact resolve_known. Qed.
Print Assumptions C17_known.

Theorem C17_unknown : forall d rs c, mk_conv true d rs = Val c -> forall rest p i, request_ok d rest = true ->
  partition d rest = Some (p, i) -> (forall r, In r rs -> ~ In p (all_prefixes r)) -> resolve c rest = Status failure_code.
Proof. exact resolve_unknown. Qed.
Print Assumptions C17_unknown.

Example C17_nonvacuous :
  exists c, mk_conv true [58%N] [ {| r_prefix := [100;111;105]; r_uri := [104;47]; r_psyn := [[68]]; r_usyn := []; r_pat := None |} ]%N = Val c /\
    resolve c [100;111;105;58;49;48;46;49;47;97;58;98]%N = Redirect302 [104;47;49;48;46;49;47;97;58;98]%N /\     (* doi:10.1/a:b *)
    resolve c [68;58;49]%N = Redirect302 [104;47;49]%N /\ resolve c [120;58;49]%N = Status 422.
Proof. eexists. split; [vm_compute; reflexivity|]. vm_compute. auto. Qed.

(* the statement of the property itself: whatever converter.expand answers on the requested string, the response is a 302 to
   that URI, or 422 when expand gives None -- this is what the run compares both frameworks with, using the implementation's
   own expand answers *)
Theorem C17_relative : forall d rs c, mk_conv true d rs = Val c -> forall rest e, request_ok d rest = true ->
  expand c rest false false = Val e -> vresponse (resolve c rest) = rel_response d rest e.
Proof. exact resolve_relative. Qed.
Print Assumptions C17_relative.
Theorem C17_P_model : forall k, valid_w k = true ->
  P_C17 k (VList (map (fun pe => let r := rel_response (wc_delim k) (fst pe) (snd pe) in VList [r; r]) (combine (wc_paths k) (wc_expands k)))) = true.
Proof. exact P_C17_model. Qed.
Print Assumptions C17_P_model.

(* The route contract as a router guarantees it -- SOME decomposition prefix ++ delimiter ++ identifier with a non-empty
   slash-free prefix and a non-empty identifier exists -- is the first-split test of the handler model, for every
   delimiter; so a request the routers accept is never answered 404 by the handler *)
Theorem C17_route_first_split : forall d rest, d <> [] -> prefixb d rest = false ->
  (route_matches d rest <-> first_split_ok d rest).
Proof. exact route_first_split. Qed.
Print Assumptions C17_route_first_split.
Theorem C17_routed_not_404 : forall d rs c rest, mk_conv true d rs = Val c -> d <> [] -> prefixb d rest = false ->
  route_matches d rest -> resolve c rest <> NotFound404.
Proof. exact routed_not_404. Qed.
Print Assumptions C17_routed_not_404.

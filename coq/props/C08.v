(* C08 -- strict, passthrough and default modes differ only in how failure is reported.
   Observation codes: [0; v] = returned v, [1] = raised a library ValueError-derived error, [2] = anything else. *)
From Curies.model Require Import Str PyData Trie Conv Query Val Answer Spec CheckQ.
From Curies.proofs Require Import StrFacts IndexFacts QueryFacts LawFacts CheckFacts PModelFacts.

(* the seven (strict, passthrough) functions on strings *)
Theorem C08_modes_str : forall d rs c s, mk_conv true d rs = Val c ->
  mode_ok (VStr s) (QCompress s) (answer c) /\ mode_ok (VStr s) (QExpand s) (answer c) /\
  mode_ok (VStr s) (QCompressOrStd s) (answer c) /\ mode_ok (VStr s) (QExpandOrStd s) (answer c) /\
  mode_ok (VStr s) (QStdPrefix s) (answer c) /\ mode_ok (VStr s) (QStdCurie s) (answer c) /\
  mode_ok (VStr s) (QStdUri s) (answer c).
Proof. exact LawFacts.C08_modes_str. Qed.
Print Assumptions C08_modes_str.
(* expand_pair / expand_reference: passthrough returns the formatted CURIE *)
Theorem C08_modes_pair : forall d rs c p i, mk_conv true d rs = Val c ->
  mode_ok (VStr (p ++ d ++ i)) (QExpandPair p i) (answer c) /\ mode_ok (VStr (p ++ d ++ i)) (QExpandRef p i) (answer c).
Proof. exact LawFacts.C08_modes_pair. Qed.
Print Assumptions C08_modes_pair.
(* the five strict-only functions *)
Theorem C08_modes_strict_only : forall d rs c s p i, mk_conv true d rs = Val c ->
  mode1_ok (QParseUri s) (answer c) /\ mode1_ok (QParseCurie s) (answer c) /\ mode1_ok (QParse s) (answer c) /\
  mode1_ok (QExpandAll s) (answer c) /\ mode1_ok (QExpandPairAll p i) (answer c).
Proof. exact LawFacts.C08_modes1. Qed.
Print Assumptions C08_modes_strict_only.
(* nothing but the library's ValueError family escapes, in any mode, from any query method *)
Theorem C08_no_other : forall d rs c q, mk_conv true d rs = Val c -> conv_query q = true -> answer c q <> VList [VInt 2].
Proof. exact LawFacts.C08_no_other. Qed.
Print Assumptions C08_no_other.
(* every error the model can raise from these methods is in the library's ValueError family *)
Theorem C08_family : forall e, In e [ENoCURIEDelimiter; EExpansion; ECompression; EPrefixStd; EIdentifierStd; ECURIEStd; EURIStd] ->
  lib_value_error e = true.
Proof. intros e H. simpl in H. repeat (destruct H as [<-|H]; [reflexivity|]). destruct H. Qed.
Print Assumptions C08_family.

Example C08_nonvacuous :
  exists c, mk_conv true [58%N] [ {| r_prefix := [97]; r_uri := [104;47]; r_psyn := []; r_usyn := []; r_pat := None |} ]%N = Val c /\
    answer c (QExpand [110;111]%N false false) = VList [VInt 0; VNone] /\
    answer c (QExpand [110;111]%N false true) = VList [VInt 0; VSome (VStr [110;111]%N)] /\
    answer c (QExpand [110;111]%N true false) = VList [VInt 1] /\
    answer c (QParseCurie [110;111]%N true) = VList [VInt 1].
Proof. eexists. split; [vm_compute; reflexivity|]. vm_compute. auto. Qed.

(* the executable predicate P_C08 accepts the model's own answers on every valid case *)
Theorem C08_P_model : forall k, valid_q k = true -> eval_P 8 k (model_qobs k) = 1%Z.
Proof. exact PModelFacts.P_C08_model. Qed.
Print Assumptions C08_P_model.

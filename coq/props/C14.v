(* C14 -- written contexts read back to the same converter.  PARTIAL: json, pathlib, rdflib (Turtle, SPARQL) and csv
   are runtime; proved is the logic the round trips rest on. *)
From Curies.model Require Import Str PyData Conv Loaders Val Spec CheckQ Writers.
From Curies.proofs Require Import StrFacts DictFacts WritersFacts.
From Curies.model Require Import JsonStr ShaclText.
From Curies.proofs Require Import JsonStrFacts ShaclTextFacts.
From Curies.model Require Import JsonDoc.
From Curies.proofs Require Import JsonDocFacts.

(* extended prefix map: prefix, URI prefix and pattern exact (also pattern = ""), synonym sets equal (lists sorted) *)
Theorem C14_epm : forall r, record_of_dict (record_to_dict r) = Some (normalise r).
Proof. exact epm_roundtrip. Qed.
Print Assumptions C14_epm.
Theorem C14_epm_all : forall rs, all_some (map (fun r => record_of_dict (record_to_dict r)) rs) = Some (map normalise rs).
Proof. exact epm_roundtrip_all. Qed.
Print Assumptions C14_epm_all.
Theorem C14_epm_fields : forall r, r_prefix (normalise r) = r_prefix r /\ r_uri (normalise r) = r_uri r /\ r_pat (normalise r) = r_pat r /\
  (forall x, In x (r_psyn (normalise r)) <-> In x (r_psyn r)) /\ (forall x, In x (r_usyn (normalise r)) <-> In x (r_usyn r)).
Proof. exact normalise_fields. Qed.
Print Assumptions C14_epm_fields.

(* JSON-LD, plain and expanded form, with and without synonyms: reading the written context through the C13 term filter
   gives back exactly the written (prefix, URI prefix) pairs *)
Theorem C14_jsonld : forall rs ex syn, NoDup (flat_map (written_prefixes syn) rs) ->
  (forall r p, In r rs -> In p (written_prefixes syn r) -> jsonld_key_ok p = true) ->
  jsonld_prefix_map (jsonld_context rs ex syn) = pm_items rs syn.
Proof. exact jsonld_roundtrip. Qed.
Print Assumptions C14_jsonld.

(* SHACL: escaping the backslashes is undone by the Turtle short-string lexer -- prefix, namespace and pattern survive *)
Theorem C14_turtle_string : forall s, forallb turtle_safe s = true -> turtle_unescape (escape_bs s) = Some s.
Proof. exact turtle_roundtrip. Qed.
Print Assumptions C14_turtle_string.
Theorem C14_shacl : forall p u pat, printable_ok p = true -> printable_ok u = true ->
  match pat with Some x => printable_ok x = true | None => True end ->
  shacl_read (shacl_line_fields p u pat) = Some ([p; u] ++ match pat with Some (c :: x) => [c :: x] | _ => [] end).
Proof. exact shacl_roundtrip. Qed.
Print Assumptions C14_shacl.

(* TSV: over the printable alphabet no field is quoted and the line splits back into the two columns *)
Theorem C14_tsv : forall p u, printable_ok p = true -> printable_ok u = true ->
  exists line, tsv_line p u = Some line /\ split_tab line = [p; u].
Proof. exact tsv_roundtrip. Qed.
Print Assumptions C14_tsv.

(* What the run observes (the converter read back from what was written) is the property stated on the records alone: the same
   records up to the order of the synonym lists (EPM), the written prefix -> URI prefix pairs (JSON-LD, SHACL, TSV) and the patterns
   (SHACL) -- for every strict record list of the quantified alphabets, every format and flag *)
Theorem C14_P_model : forall rs fmt syn ex, valid_wr rs fmt = true -> model_wobs rs fmt syn ex = spec_wobs rs fmt syn.
Proof. exact model_is_spec. Qed.
Print Assumptions C14_P_model.

(* without the escaping a backslash does not survive: defect D5 *)
Example C14_unescaped_refuted : turtle_unescape [97; 92; 98]%N = Some [97; 8]%N /\ turtle_unescape (escape_bs [97; 92; 98]%N) = Some [97; 92; 98]%N.
Proof. vm_compute. auto. Qed.

(* ---- the text layer below the abstract values (models of the standard library, validated against the real Python by
   tools/textlayer/validate_*.py: json 20 500 cases, SHACL lines against curies._get_shacl_line and rdflib 13 751 cases) ---- *)
(* JSON string literals as json.dump writes and json.load reads them: with ensure_ascii=False (write_extended_prefix_map) every
   string comes back; with ensure_ascii=True (write_jsonld_context) every Python str without a lone high surrogate immediately followed
   by a lone low surrogate comes back, and that condition is exact *)
Theorem C14_json_str_raw : forall s, json_decode_str (json_encode_str false s) = Some s.
Proof. exact json_decode_encode_raw. Qed.
Print Assumptions C14_json_str_raw.
Theorem C14_json_str_ascii_iff : forall s, str_valid s = true ->
  (json_decode_str (json_encode_str true s) = Some s <-> no_surrogate_pair s = true).
Proof. exact json_str_roundtrip_ascii_iff. Qed.
Print Assumptions C14_json_str_ascii_iff.
Theorem C14_json_str_injective : forall ascii s1 s2, json_rt_ok ascii s1 = true -> json_rt_ok ascii s2 = true ->
  json_encode_str ascii s1 = json_encode_str ascii s2 -> s1 = s2.
Proof. exact json_encode_str_inj. Qed.
Print Assumptions C14_json_str_injective.
(* the whole TEXT of a SHACL line as _get_shacl_line writes it, read by a parser of that line shape (string literals scanned with
   escapes, then unescaped): prefix, namespace and pattern come back; without the backslash doubling they never do *)
Theorem C14_shacl_line_text : forall p u pat, printable_ok p = true -> printable_ok u = true ->
  (match pat with Some x => printable_ok x = true | None => True end) ->
  shacl_parse_line (shacl_line p u pat) = Some (p, u, match pat with Some (c :: x) => Some (c :: x) | _ => None end).
Proof. exact shacl_line_roundtrip. Qed.
Print Assumptions C14_shacl_line_text.
Theorem C14_shacl_raw_never_roundtrips : forall p u pat u' pat', forallb turtle_safe p = true -> In backslash p ->
  shacl_parse_line (shacl_line_raw p u pat) <> Some (p, u', pat').
Proof. exact shacl_line_raw_never_roundtrips. Qed.
Print Assumptions C14_shacl_raw_never_roundtrips.

(* whole JSON DOCUMENTS as json.dumps(..., indent=4, sort_keys=True) writes them and json.load reads them (model/JsonDoc.v, validated
   against CPython on 17 900 documents and texts): a value whose objects have unique keys comes back with its keys sorted, exactly when
   (under ensure_ascii) no key or string contains a surrogate pair written as two code points *)
Theorem C14_json_doc_roundtrip : forall ascii v, jv_rt_ok ascii v = true -> json_parse (json_dump ascii v) = Some (sort_keys v).
Proof. exact json_doc_roundtrip. Qed.
Print Assumptions C14_json_doc_roundtrip.
Theorem C14_json_doc_roundtrip_iff : forall ascii v, jv_keys_unique v = true -> jv_wf ascii v = true ->
  (json_parse (json_dump ascii v) = Some (sort_keys v) <-> jv_rt_ok ascii v = true).
Proof. exact json_doc_roundtrip_iff. Qed.
Print Assumptions C14_json_doc_roundtrip_iff.
(* the extended prefix map FILE: the text write_extended_prefix_map produces for the records, parsed and turned back into records,
   gives the records with sorted synonym lists -- for every list of records, no hypothesis (ensure_ascii=False) *)
Theorem C14_epm_text : forall rs, epm_records_read (epm_records_write rs) = Some (map normalise rs).
Proof. exact epm_records_roundtrip. Qed.
Print Assumptions C14_epm_text.
(* the JSON-LD context FILE (ensure_ascii=True): the terms come back, sorted by key, when no term or value holds a surrogate pair *)
Theorem C14_jsonld_text : forall ctx, jsonld_ok ctx = true -> jsonld_read (jsonld_write ctx) = Some (sort_by_key fst ctx).
Proof. exact jsonld_text_roundtrip. Qed.
Print Assumptions C14_jsonld_text.

(* C05 -- incrementally built converters stay consistent with their own records.
   swf c: the indexes of c answer "the record of (recs c) that lists the key", and no string is claimed by two of its
   records.  fold_c is the casefold table (any). *)
From Curies.model Require Import Str PyData Trie Conv Query Val Answer Spec CheckQ Mutate.
From Curies.proofs Require Import StrFacts IndexFacts QueryFacts C04Facts MutateFacts.
From Curies.model Require Import CheckM.
From Curies.proofs Require Import PModelM.

Theorem C05_init : forall d rs c, mk_conv true d rs = Val c -> swf c.
Proof. exact mk_conv_swf. Qed.
Print Assumptions C05_init.

(* one step, accepted *)
Theorem C05_step : forall fold_c c r cs mg c', swf c -> add_record fold_c c r cs mg = Val c' -> swf c'.
Proof. exact add_record_swf. Qed.
Print Assumptions C05_step.
Theorem C05_step_add_prefix : forall fold_c c p u ps us cs mg c', swf c -> add_prefix fold_c c p u ps us cs mg = Val c' -> swf c'.
Proof. exact add_prefix_swf. Qed.
Print Assumptions C05_step_add_prefix.

(* every reachable state of every history (rejected calls leave the state as it was) *)
Theorem C05_reachable : forall fold_c ops c, swf c -> swf (hrun fold_c c ops).
Proof. exact reachable_swf. Qed.
Print Assumptions C05_reachable.

(* a consistent converter answers every query exactly as a converter freshly constructed from its current records,
   namely by the naive specification; and the one-owner uniqueness of C04 holds *)
Theorem C05_fresh_equiv : forall c, swf c ->
  exists c0, mk_conv true (delim c) (recs c) = Val c0 /\
    forall q, conv_query q = true -> answer c q = answer c0 q /\ answer c q = spec_answer (recs c) (delim c) q.
Proof. exact fresh_equiv. Qed.
Print Assumptions C05_fresh_equiv.
Theorem C05_still_strict : forall c, swf c -> strictb (recs c) = true.
Proof. exact swf_strict. Qed.
Print Assumptions C05_still_strict.

(* rejection: ValueError (or the record validation error of add_prefix) and nothing else *)
Theorem C05_reject : forall fold_c c r cs mg e, swf c -> add_record fold_c c r cs mg = Raise e -> e = EValueError.
Proof. exact add_record_reject. Qed.
Print Assumptions C05_reject.
Theorem C05_reject_history : forall fold_c c o e, swf c -> hstep fold_c c o = Raise e -> e = EValueError \/ e = ERecordValidation.
Proof. exact hstep_errors. Qed.
Print Assumptions C05_reject_history.

(* what add_record does: no match -> append; one match with merge -> merge into it; otherwise reject *)
Theorem C05_cases : forall fold_c c r cs mg, swf c ->
  match filter (matches_record fold_c cs r) (recs c) with
  | [] => add_record fold_c c r cs mg = Val (index c r (recs c ++ [r]))
  | [m] => if mg then add_record fold_c c r cs mg = Val (index c (merge r m) (map (repl m (merge r m)) (recs c)))
           else add_record fold_c c r cs mg = Raise EValueError
  | _ => add_record fold_c c r cs mg = Raise EValueError
  end.
Proof. exact add_record_cases. Qed.
Print Assumptions C05_cases.

(* acceptance: merging keeps the existing canonical prefix, canonical URI prefix and pattern; everything new becomes a synonym *)
Theorem C05_accept : forall fold_c c r cs mg c', swf c -> add_record fold_c c r cs mg = Val c' ->
  (recs c' = recs c ++ [r] /\ forall r0, In r0 (recs c) -> matches_record fold_c cs r r0 = false)
  \/ (exists m, In m (recs c) /\ matches_record fold_c cs r m = true /\ mg = true /\
        recs c' = map (repl m (merge r m)) (recs c) /\
        r_prefix (merge r m) = r_prefix m /\ r_uri (merge r m) = r_uri m /\ r_pat (merge r m) = r_pat m /\
        (forall x, In x (all_prefixes (merge r m)) <-> In x (all_prefixes m) \/ In x (all_prefixes r)) /\
        (forall x, In x (all_uris (merge r m)) <-> In x (all_uris m) \/ In x (all_uris r))).
Proof. exact add_record_accept. Qed.
Print Assumptions C05_accept.
Theorem C05_resolves : forall fold_c c r cs mg c', swf c -> add_record fold_c c r cs mg = Val c' ->
  (forall p, In p (all_prefixes r) -> exists y, In y (recs c') /\ dget p (synmap c') = Some (r_prefix y) /\ In p (all_prefixes y)) /\
  (forall u, In u (all_uris r) -> exists y, In y (recs c') /\ find u (ctrie c') = Some (r_prefix y) /\ In u (all_uris y)).
Proof. exact add_record_resolves. Qed.
Print Assumptions C05_resolves.

(* C01's incremental clause: parse_uri on an incrementally built converter is the longest-prefix specification *)
Theorem C05_incremental_parse_uri : forall c, swf c -> forall u, parse_uri_core c u = sp_parse_uri (recs c) u.
Proof. intros c S u. destruct S as (W & _). exact (WF.L_parse_uri _ _ _ W u). Qed.
Print Assumptions C05_incremental_parse_uri.

(* non-vacuity: a history with a merge (case-insensitive), a rejection and an append *)
Definition r (p u : str) ps us := {| r_prefix := p; r_uri := u; r_psyn := ps; r_usyn := us; r_pat := None |}.
Definition fc (c : chr) : str := if ((65 <=? c) && (c <=? 90))%N then [c + 32]%N else [c].
Example C05_nonvacuous :
  exists c0, mk_conv true [58%N] [r [103;111] [104;47] [] []]%N = Val c0 /\
  let c3 := hrun fc c0 [HAddRecord (r [71;79] [105;47] [[120]] []) false true;     (* "GO" merges into "go" *)
                        HAddRecord (r [103;111] [106;47] [] []) true false;        (* rejected *)
                        HAddPrefix [121] [107;47] [] [] true false]%N in           (* appended *)
  map r_prefix (recs c3) = [[103;111]; [121]]%N /\ map r_psyn (recs c3) = [[[71;79]; [120]]; []]%N /\
  expand c3 [120;58;49]%N false false = Val (Some [104;47;49]%N) /\
  compress c3 [105;47;49]%N false false = Val (Some [103;111;58;49]%N).
Proof. eexists. split; [vm_compute; reflexivity|]. vm_compute. auto. Qed.

(* the executable predicate of the run (after every step: outcome and records as the naive step specification says, every query as
   a converter freshly built from the observed records answers) accepts the model's own observation on every valid history *)
Theorem C05_P_model : forall k : mcase, valid_m k = true -> P_C05 k (model_mobs k) = true.
Proof. exact P_C05_model. Qed.
Print Assumptions C05_P_model.

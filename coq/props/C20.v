(* C20 -- the W3C validators accept exactly the documented grammar.
   [sp] is the whitespace table (str.isspace / the \s class of one code point); the theorems hold for every table in
   which '/' is not whitespace.  The patterns and the re methods are those the translator reads from w3c.py on every
   run (gen/GenObl_C20.v shows Gen = W3C). *)
From Curies.model Require Import Str Regex Val W3C.
From Curies.proofs Require Import StrFacts RegexFacts W3CFacts.

(* the matcher is correct with respect to the declarative semantics of regular expressions *)
Theorem C20_deriv_ok : forall sp r c s, matches sp (deriv sp c r) s <-> matches sp r (c :: s).
Proof. exact deriv_ok. Qed.
Print Assumptions C20_deriv_ok.
Theorem C20_fullmatch_ok : forall sp s r, fullmatchb sp r s = true <-> matches sp r s.
Proof. exact fullmatchb_ok. Qed.
Print Assumptions C20_fullmatch_ok.
Theorem C20_match_ok : forall sp dollar s r, matchb sp dollar r s = true <->
  exists p q, s = p ++ q /\ matches sp r p /\ rest_ok dollar q = true.
Proof. exact matchb_ok. Qed.
Print Assumptions C20_match_ok.

(* the languages of the two patterns *)
Theorem C20_ncname_lang : forall sp p, matches sp (pat_body ncname_pat) p <-> ncnameb p = true.
Proof. exact ncname_lang. Qed.
Print Assumptions C20_ncname_lang.
Theorem C20_luid_lang : forall sp, sp 47%N = false -> forall p, matches sp (pat_body luid_pat) p <-> referenceb sp p = true.
Proof. exact luid_lang. Qed.
Print Assumptions C20_luid_lang.

(* is_w3c_prefix s  <->  s is an ASCII NCName: (letter | '_') (letter | digit | '.' | '-' | '_')*, nothing else *)
Theorem C20_prefix : forall sp s, is_w3c_prefix sp s = ncnameb s.
Proof. exact prefix_is_ncname. Qed.
Print Assumptions C20_prefix.
(* is_w3c_curie s <-> no brackets, not blank, and p:r with p empty or NCName and r a whitespace-free reference
   not starting with "//"; a colon-free string is a bare reference under the same rule *)
Theorem C20_curie : forall sp, sp 47%N = false -> forall s, is_w3c_curie sp s = w3c_curie_spec sp s.
Proof. exact curie_is_spec. Qed.
Print Assumptions C20_curie.

(* the executable predicate of the run (the two answers equal those of the documented grammar) accepts the model on every string *)
Theorem C20_P_model : forall s spaces, valid_w3c spaces = true -> P_C20 (sp_of spaces) s (model_w3c (sp_of spaces) s) = true.
Proof. exact P_C20_model. Qed.
Print Assumptions C20_P_model.

(* with re.match (the code before the repair) the statement is false: "GO\n" and "a:b c" *)
Theorem C20_match_refuted : let sp := (fun c => N.eqb c 32 || N.eqb c 10)%N in
  is_w3c_prefix_match sp [71; 79; 10]%N = true /\ ncnameb [71; 79; 10]%N = false /\
  is_w3c_curie_match sp [97; 58; 98; 32; 99]%N = true /\ w3c_curie_spec sp [97; 58; 98; 32; 99]%N = false.
Proof. exact match_refuted. Qed.
Print Assumptions C20_match_refuted.

Example C20_nonvacuous : let sp := (fun c => N.eqb c 32 || N.eqb c 10 || N.eqb c 9)%N in
  sp 47%N = false /\ is_w3c_prefix sp [71; 79]%N = true /\ is_w3c_prefix sp [71; 79; 10]%N = false /\
  is_w3c_curie sp [71; 79; 58; 49]%N = true /\ is_w3c_curie sp [58; 49]%N = true /\ is_w3c_curie sp [47; 47; 49]%N = false /\
  is_w3c_curie sp [97; 58; 98; 32; 99]%N = false /\ is_w3c_curie sp [32]%N = false /\ is_w3c_curie sp [91; 97; 58; 98; 93]%N = false.
Proof. vm_compute. repeat split; reflexivity. Qed.

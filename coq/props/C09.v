(* C09 -- chain is a priority union of converters and get_subconverter a restriction.
   swf c: c is a consistent strict converter (C05); every converter built by the strict constructor is (C05_init). *)
From Curies.model Require Import Str PyData Trie Conv Query Val Answer Spec CheckQ Mutate.
From Curies.proofs Require Import StrFacts IndexFacts QueryFacts C04Facts MutateFacts ChainFacts.
From Curies.model Require Import CheckR.
From Curies.proofs Require Import PModelR09.

(* either ValueError (a later record bridges two earlier ones, or no input) or a converter satisfying C04 / C05 *)
Theorem C09_raise_or_wf : forall fold_c cs sens,
  chain fold_c cs sens = Raise EValueError \/ exists R, chain fold_c cs sens = Val R /\ swf R.
Proof. exact chain_outcome. Qed.
Print Assumptions C09_raise_or_wf.

(* exactly the union of the inputs' CURIE prefixes and URI prefixes; what shared a record in an input shares one in R *)
Theorem C09_union_grouping : forall fold_c cs sens R, chain fold_c cs sens = Val R ->
  (forall k, known_p R k <-> exists c r, In c cs /\ In r (recs c) /\ In k (all_prefixes r)) /\
  (forall k, known_u R k <-> exists c r, In c cs /\ In r (recs c) /\ In k (all_uris r)) /\
  (forall c r, In c cs -> In r (recs c) -> exists y, In y (recs R) /\
       (forall k, In k (all_prefixes r) -> In k (all_prefixes y)) /\ (forall k, In k (all_uris r) -> In k (all_uris y))).
Proof. exact chain_union. Qed.
Print Assumptions C09_union_grouping.

(* case-sensitive: the first converter's records survive with their canonical prefix, URI prefix and pattern ... *)
Theorem C09_priority : forall fold_c c1 cs R, swf c1 -> chain fold_c (c1 :: cs) true = Val R ->
  forall y, In y (recs c1) -> exists y', In y' (recs R) /\ continues y y'.
Proof. exact chain_priority. Qed.
Print Assumptions C09_priority.
(* ... so every prefix known to c1 expands exactly as c1 expands it *)
Theorem C09_priority_expand : forall fold_c c1 cs R p i st pa, swf c1 -> chain fold_c (c1 :: cs) true = Val R ->
  (exists y, In y (recs c1) /\ In p (all_prefixes y)) -> expand_pair R p i st pa = expand_pair c1 p i st pa.
Proof. exact chain_priority_expand. Qed.
Print Assumptions C09_priority_expand.

(* chain([c]) is equivalent to c (case-sensitive): same records, consistent indexes *)
Theorem C09_singleton : forall fold_c c, swf c -> exists R, chain fold_c [c] true = Val R /\ recs R = recs c /\ swf R.
Proof. exact chain_singleton. Qed.
Print Assumptions C09_singleton.

(* case_sensitive=False: no two records of the result hold keys equal up to case *)
Theorem C09_fold_distinct : forall fold_c cs R, chain fold_c cs false = Val R -> pairwise (ci_disjoint fold_c) (recs R).
Proof. exact chain_fold_distinct. Qed.
Print Assumptions C09_fold_distinct.

(* get_subconverter(P): exactly the records having a canonical prefix or synonym in P, and it answers by them *)
Theorem C09_sub : forall c P, swf c -> exists S, get_subconverter c P = Val S /\
  recs S = sort_records (filter (keep P) (recs c)) /\ swf S /\
  forall q, conv_query q = true -> answer S q = spec_answer (filter (keep P) (recs c)) [58%N] q.
Proof. exact sub_ok. Qed.
Print Assumptions C09_sub.
(* as the parent on kept records, not at all on dropped ones *)
Theorem C09_sub_prefixes : forall c P p, swf c ->
  owner_by_prefix (filter (keep P) (recs c)) p =
  match owner_by_prefix (recs c) p with Some r => if keep P r then Some r else None | None => None end.
Proof. exact sub_owner. Qed.
Print Assumptions C09_sub_prefixes.
Theorem C09_sub_uris : forall c P u p r, swf c -> longest_match (recs c) u = Some (p, r) -> keep P r = true ->
  longest_match (filter (keep P) (recs c)) u = Some (p, r).
Proof. exact sub_longest. Qed.
Print Assumptions C09_sub_uris.

Definition r (p u : str) ps us := {| r_prefix := p; r_uri := u; r_psyn := ps; r_usyn := us; r_pat := None |}.
Definition fc (c : chr) : str := if ((65 <=? c) && (c <=? 90))%N then [c + 32]%N else [c].
Example C09_nonvacuous :
  exists c1 c2, mk_conv true [58%N] [r [103;111] [104;47] [] []]%N = Val c1 /\
                mk_conv true [58%N] [r [71;79] [105;47] [] [[104;47]]; r [120] [106;47] [] []]%N = Val c2 /\
  (exists R, chain fc [c1; c2] true = Val R /\ map r_prefix (recs R) = [[103;111]; [120]]%N /\
             map r_psyn (recs R) = [[[71;79]]; []]%N /\ map r_uri (recs R) = [[104;47]; [106;47]]%N) /\
  (exists S, get_subconverter c2 [[120]]%N = Val S /\ map r_prefix (recs S) = [[120]]%N).
Proof.
  eexists. eexists. split; [vm_compute; reflexivity|]. split; [vm_compute; reflexivity|]. split.
  - eexists. split; [vm_compute; reflexivity|]. vm_compute. auto.
  - eexists. split; [vm_compute; reflexivity|]. vm_compute. auto.
Qed.

(* the executable predicate of the run accepts the model's own observation on every valid case (chain and get_subconverter) *)
Theorem C09_P_model : forall k : rcase, valid_r k = true ->
  (match rc_op k with DChain _ | DSub _ => True | _ => False end) -> P_C09 k (model_robs k) = true.
Proof. exact P_C09_model. Qed.
Print Assumptions C09_P_model.

(* C18 -- the mapping service returns exactly the equivalent URIs, in the requested format.  PARTIAL:
   proved are the triples oracle and the Accept-header negotiation; rdflib's SPARQL parser / evaluator, the VALUES
   re-ordering (_optimize_node), the result serialisers and the web stacks are runtime and only exercised. *)
From Curies.model Require Import Str PyData Trie Conv Query Val Answer Spec CheckQ Mapping.
From Curies.proofs Require Import StrFacts IndexFacts QueryFacts LawFacts MappingFacts.
From Curies.proofs Require Import PModelS.
From Coq Require Import Permutation.
From Curies.model Require Import Optimize.
From Curies.proofs Require Import OptimizeFacts.
From Curies.proofs Require Import OwsFacts.

(* what the graph yields for a bound URI u over a configured predicate: the valid renderings of u's record *)
Theorem C18_answers : forall inv d rs c, mk_conv true d rs = Val c -> forall u, equivalents inv c u = spec_equivalents inv rs u.
Proof. exact equivalents_spec. Qed.
Print Assumptions C18_answers.
(* ... i.e. exactly the syntactically valid members of expand_all(compress(u)) *)
Theorem C18_answers_expand_all : forall inv d rs c, mk_conv true d rs = Val c -> forall u x, H_d d rs ->
  compress c u false false = Val (Some x) ->
  exists l, expand_all c x false = Val (Some l) /\ equivalents inv c u = filter (valid_uri inv) l.
Proof. exact equivalents_expand_all. Qed.
Print Assumptions C18_answers_expand_all.
Theorem C18_unrecognised : forall inv d rs c, mk_conv true d rs = Val c -> forall u, is_uri c u = false -> equivalents inv c u = [].
Proof. exact unrecognised_nothing. Qed.
Print Assumptions C18_unrecognised.
Theorem C18_other_predicate : forall inv c u, triples_for inv c false u = [].
Proof. exact other_predicate_nothing. Qed.
Print Assumptions C18_other_predicate.

(* the response media type: the client's highest-q supported (or synonym) type, the first listed on ties, a repeated
   type keeping its first position and last q; none supported / empty / missing header -> SPARQL XML *)
Theorem C18_header : forall h, negotiate h = spec_negotiate h.
Proof. exact negotiate_spec. Qed.
Print Assumptions C18_header.
(* the stable descending sort puts the best acceptable entry first *)
Theorem C18_sort_first : forall P l, all_qpos l -> List.find P (sort_desc l) = bestP P l.
Proof. exact find_sort_desc. Qed.
Print Assumptions C18_sort_first.

Definition h1 : str := [116;101;120;116;47;104;116;109;108;44;32;97;112;112;108;105;99;97;116;105;111;110;47;106;115;111;110;59;113;61;48;46;53]%N.
(* "text/html, application/json;q=0.5" : defect D8 (fixed) *)
Example C18_nonvacuous : negotiate (Some h1) = Some ct_json /\ negotiate None = Some ct_xml /\ negotiate (Some []) = Some ct_xml.
Proof. vm_compute. auto. Qed.

(* the statement of the property itself, relative to the converter's own compress and expand_all: this is the form the run
   checks, with the implementation's answers of expand_all(compress(u)) recorded in the case *)
Theorem C18_relative : forall inv d rs c, mk_conv true d rs = Val c -> forall is_pred u, H_d d rs ->
  triples_for inv c is_pred u =
  rel_answer inv is_pred (match compress c u false false with
                          | Val (Some x) => match expand_all c x false with Val o => o | Raise _ => None end
                          | _ => None end).
Proof. exact triples_relative. Qed.
Print Assumptions C18_relative.

(* the executable predicate of the run accepts the model's own observation on every valid case *)
Theorem C18_P_model : forall k : scase, valid_s k = true -> P_C18 k (model_sobs k) = true.
Proof. exact P_C18_model. Qed.
Print Assumptions C18_P_model.

(* ---- rdflib_custom._optimize_node (model/Optimize.v): the rewriting that makes "VALUES after the WHERE block" work ---- *)
(* the model recurses first and swaps afterwards (structural recursion); this is the source's order: swap, then recurse *)
Theorem C18_opt_code_order : forall n fs, opt (ANode n fs) = ANode n (opt_fields (swap_if n fs)).
Proof. exact opt_code_order. Qed.
Print Assumptions C18_opt_code_order.
(* after the rewriting no Join anywhere in the tree has a VALUES clause as its second operand only *)
Theorem C18_opt_values_first : forall a, values_first (opt a) = true.
Proof. exact opt_values_first. Qed.
Print Assumptions C18_opt_values_first.
(* a VALUES clause written after the WHERE block and one written inside it are the same tree after the rewriting *)
Theorem C18_opt_values_placement : forall X V rest, str_eqb (aname V) multiset_name = true -> str_eqb (aname X) multiset_name = false ->
  opt (ANode join_name (FNodeF k_p1 X (FNodeF k_p2 V rest))) = opt (ANode join_name (FNodeF k_p1 V (FNodeF k_p2 X rest))).
Proof. exact values_placement. Qed.
Print Assumptions C18_opt_values_placement.
(* nothing else happens: same node names and opaque contents (as multisets), same keys at every node, and a second pass changes nothing *)
Theorem C18_opt_same_content : forall a, Permutation (leaves (opt a)) (leaves a).
Proof. exact opt_same_content. Qed.
Print Assumptions C18_opt_same_content.
Theorem C18_opt_same_shape : forall n fs, exists fs', opt (ANode n fs) = ANode n fs' /\ fkeys fs' = fkeys fs.
Proof. exact opt_same_shape. Qed.
Print Assumptions C18_opt_same_shape.
Theorem C18_opt_idempotent : forall a, opt (opt a) = opt a.
Proof. exact opt_idempotent. Qed.
Print Assumptions C18_opt_idempotent.
Example C18_opt_nonvacuous :
  let bgp := ANode [66;71;80]%N (FLeafF [116]%N [49]%N FNil) in
  let vals := ANode multiset_name (FLeafF [112]%N [50]%N FNil) in
  let after_where := ANode join_name (FNodeF k_p1 bgp (FNodeF k_p2 vals FNil)) in
  values_first after_where = false /\ opt after_where = ANode join_name (FNodeF k_p1 vals (FNodeF k_p2 bgp FNil)).
Proof. vm_compute. auto. Qed.

(* Optional white space: inserting spaces or tabs next to any ',' ';' '=' of an Accept header, or at its beginning or end, any
   number of times, never changes the negotiated media type (nor whether the header is rejected) *)
Theorem C18_ows : forall h h', ows_equiv h h' -> negotiate (Some h') = negotiate (Some h).
Proof. exact negotiate_ows. Qed.
Print Assumptions C18_ows.
(* ... while white space inside a q-value is not optional white space and does matter: "text/csv;q=0.5" vs "text/csv;q=0. 5" *)
Theorem C18_ows_inside_value_matters :
  negotiate (Some [116;101;120;116;47;99;115;118;59;113;61;48;46;53]%N) = Some ct_csv /\
  negotiate (Some [116;101;120;116;47;99;115;118;59;113;61;48;46;32;53]%N) = None.
Proof. exact ows_inside_value_matters. Qed.

(* the header clause of the run's predicate: any supported (or synonym) type whose q is maximal among the supported ones is acceptable --
   the statement does not say which of several types with the same highest q wins; the specification's own answer is acceptable, and
   without ties it is the only acceptable one *)
Theorem C18_negotiate_acceptable : forall h, negotiate_acceptable h (spec_negotiate h) = true.
Proof. exact negotiate_acceptable_spec. Qed.
Print Assumptions C18_negotiate_acceptable.
Theorem C18_negotiate_unique_without_ties : forall h a, header_no_ties h = true -> negotiate_acceptable h a = true -> a = spec_negotiate h.
Proof. exact negotiate_acceptable_unique. Qed.
Print Assumptions C18_negotiate_unique_without_ties.

(* MappingServiceGraph.triples, for every function standing for _expand_pair_all, every list of configured predicates and every
   triple pattern (positions bound or variable).  The run compares what graph.triples yields on the implementation with
   `triples` pattern by pattern.  (Defect D10 of the unchanged code violated the first three.) *)
From Curies.proofs Require Import TriplesFacts.
Theorem C18_triples_match : forall eqv preds pat t, In t (triples eqv preds pat) -> tmatch pat t = true.
Proof. exact triples_match. Qed.
Print Assumptions C18_triples_match.
Theorem C18_triples_configured_irrelevant : forall eqv preds s p o,
  In p preds -> triples eqv preds (s, Some p, o) = triples eqv [p] (s, Some p, o).
Proof. exact triples_configured_irrelevant. Qed.
Print Assumptions C18_triples_configured_irrelevant.
Theorem C18_triples_objects : forall eqv preds s p, In p preds -> map snd (triples eqv preds (Some s, Some p, None)) = eqv s.
Proof. exact triples_objects. Qed.
Print Assumptions C18_triples_objects.
Theorem C18_triples_subjects : forall eqv preds p o,
  In p preds -> map (fun t : triple => fst (fst t)) (triples eqv preds (None, Some p, Some o)) = eqv o.
Proof. exact triples_subjects. Qed.
Print Assumptions C18_triples_subjects.
Theorem C18_triples_other_predicate : forall eqv preds s p o, ~ In p preds -> triples eqv preds (s, Some p, o) = [].
Proof. exact triples_other_predicate. Qed.
Print Assumptions C18_triples_other_predicate.
Theorem C18_triples_both_or_neither : forall eqv preds p (s o : option str), (s = None <-> o = None) -> triples eqv preds (s, p, o) = [].
Proof. exact triples_both_or_neither. Qed.
Print Assumptions C18_triples_both_or_neither.
Theorem C18_triples_symmetric : forall eqv preds p u x,
  In (x, p, u) (triples eqv preds (None, Some p, Some u)) <-> In (u, p, x) (triples eqv preds (Some u, Some p, None)).
Proof. exact triples_symmetric. Qed.
Print Assumptions C18_triples_symmetric.
(* the configured predicates really are the ones a non-trivial case uses: two predicates, a recognised URI *)
Example C18_triples_example :
  triples (fun u => [u; 120%N :: u]) [[112]%N; [113]%N] (Some [117]%N, Some [113]%N, None)
  = [([117]%N, [113]%N, [117]%N); ([117]%N, [113]%N, [120; 117]%N)].
Proof. vm_compute. reflexivity. Qed.

(* C07 -- derived operations agree with the two primitive parsers. *)
From Curies.model Require Import Str PyData Trie Conv Query Val Answer Spec CheckQ.
From Curies.proofs Require Import StrFacts IndexFacts QueryFacts LawFacts CheckFacts PModelFacts.

Theorem C07_is_uri_compress : forall d rs c, mk_conv true d rs = Val c -> forall u,
  is_uri c u = true <-> compress c u false false <> Val None.
Proof. exact C07_is_uri. Qed.
Print Assumptions C07_is_uri_compress.
Theorem C07_is_uri_parse_uri : forall d rs c, mk_conv true d rs = Val c -> forall u,
  is_uri c u = true <-> parse_uri c u false <> Val None.
Proof. exact C07_is_uri_parse. Qed.
Print Assumptions C07_is_uri_parse_uri.
Theorem C07_is_curie_known : forall d rs c, mk_conv true d rs = Val c -> forall s,
  is_curie c s = true <-> exists p i, partition d s = Some (p, i) /\ exists r, In r rs /\ In p (all_prefixes r).
Proof. exact C07_is_curie. Qed.
Print Assumptions C07_is_curie_known.
Theorem C07_is_curie_expand : forall d rs c, mk_conv true d rs = Val c -> forall s,
  is_curie c s = true <-> expand c s false false <> Val None.
Proof. exact LawFacts.C07_is_curie_expand. Qed.
Print Assumptions C07_is_curie_expand.
(* parse: the URI parse when recognised, else the CURIE parse when recognised, else nothing *)
Theorem C07_parse : forall c s st, parse c s st =
  if is_uri c s then parse_uri c s st else if is_curie c s then parse_curie c s st
  else if st then Raise ECompression else Val None.
Proof. exact LawFacts.C07_parse. Qed.
Print Assumptions C07_parse.
Theorem C07_uri_precedence : forall d rs c, mk_conv true d rs = Val c -> forall s r,
  sp_parse_uri rs s = Some r -> parse c s false = Val (Some r).
Proof. exact LawFacts.C07_uri_precedence. Qed.
Print Assumptions C07_uri_precedence.
Theorem C07_compress_or_standardize : forall d rs c, mk_conv true d rs = Val c -> forall s st pa,
  compress_or_standardize c s st pa = wrap st pa ECompression s (option_map (fun r => fst r ++ d ++ snd r) (sp_parse rs d s)).
Proof. exact C07_cos. Qed.
Print Assumptions C07_compress_or_standardize.
Theorem C07_expand_or_standardize : forall d rs c, mk_conv true d rs = Val c -> forall s st pa,
  expand_or_standardize c s st pa =
  wrap st pa EExpansion s (match sp_parse rs d s with Some (p, i) => sp_expand_pair rs p i | None => None end).
Proof. exact C07_eos. Qed.
Print Assumptions C07_expand_or_standardize.
Theorem C07_strict_aliases : forall c s, compress_strict c s = compress c s true false /\ expand_strict c s = expand c s true false.
Proof. intros; split; reflexivity. Qed.
Print Assumptions C07_strict_aliases.
Theorem C07_answers : forall d rs c, mk_conv true d rs = Val c -> forall q, sel_C07 q = true -> answer c q = spec_answer rs d q.
Proof. intros d rs c Hc q Hq. apply (answer_spec d rs c Hc). destruct q; simpl in *; auto; discriminate. Qed.
Print Assumptions C07_answers.

(* a string that is both: URI prefix "GO:" and CURIE prefix "GO" -- the URI reading wins *)
Definition both : list record :=
  [ {| r_prefix := [71;79]; r_uri := [104;47]; r_psyn := []; r_usyn := []; r_pat := None |};
    {| r_prefix := [120]; r_uri := [71;79;58]; r_psyn := []; r_usyn := []; r_pat := None |} ]%N.
Example C07_both :
  exists c, mk_conv true [58%N] both = Val c /\ is_uri c [71;79;58;49]%N = true /\ is_curie c [71;79;58;49]%N = true /\
    parse c [71;79;58;49]%N false = Val (Some ([120], [49]))%N /\
    parse_curie c [71;79;58;49]%N false = Val (Some ([71;79], [49]))%N.
Proof. eexists. split; [vm_compute; reflexivity|]. vm_compute. auto. Qed.

(* the executable predicate P_C07 accepts the model's own answers on every valid case *)
Theorem C07_P_model : forall k, valid_q k = true -> eval_P 7 k (model_qobs k) = 1%Z.
Proof. exact PModelFacts.P_C07_model. Qed.
Print Assumptions C07_P_model.

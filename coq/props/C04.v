(* C04 -- strict construction enforces one owner per CURIE prefix and per URI prefix.
   clash keysf rs = true: some string is claimed (canonical or synonym) by two records at different positions. *)
From Curies.model Require Import Str PyData Trie Conv Query Val Answer Spec CheckQ Loaders CheckL.
From Curies.proofs Require Import StrFacts IndexFacts QueryFacts C04Facts.
From Curies.model Require Import CheckL.
From Curies.proofs Require Import PModelL.

Theorem C04_iff : forall d rs, (exists c, mk_conv true d rs = Val c) <-> strictb rs = true.
Proof. exact mk_conv_iff. Qed.
Print Assumptions C04_iff.

Theorem C04_clash_meaning : forall keysf rs, clash keysf rs = false <-> pairwise (disjoint_keys keysf) rs.
Proof. exact clash_spec. Qed.
Print Assumptions C04_clash_meaning.

(* DuplicateURIPrefixes is raised before DuplicatePrefixes, each with a non-empty listing *)
Theorem C04_uri_first : forall d rs,
  (clash all_uris rs = true -> mk_conv true d rs = Raise EDuplicateURIPrefixes /\ dups all_uris (sort_records rs) <> []) /\
  (clash all_uris rs = false -> clash all_prefixes rs = true ->
     mk_conv true d rs = Raise EDuplicatePrefixes /\ dups all_prefixes (sort_records rs) <> []).
Proof. exact mk_conv_error. Qed.
Print Assumptions C04_uri_first.

(* the listing: every pair of records (in the constructor's order) with every string they share *)
Theorem C04_listing : forall keysf rs r1 r2 x, In (r1, r2, x) (dups keysf rs) <->
  In (r1, r2) (combinations2 rs) /\ In x (keysf r1) /\ In x (keysf r2).
Proof. exact dups_listing. Qed.
Print Assumptions C04_listing.

Theorem C04_record : forall p u ps us pat, (exists r, mk_record p u ps us pat = Val r) <-> ~ In p ps /\ ~ In u us.
Proof. exact mk_record_iff. Qed.
Print Assumptions C04_record.

(* in every strict converter each prefix / URI prefix has exactly one owner, and the indexes return it *)
Theorem C04_unique_owner : forall d rs c, mk_conv true d rs = Val c ->
  one_owner all_prefixes rs /\ one_owner all_uris rs /\
  (forall p, dget p (synmap c) = option_map r_prefix (owner_by_prefix rs p)) /\
  (forall p, dget p (pmap c) = option_map r_uri (owner_by_prefix rs p)) /\
  (forall u, find u (ctrie c) = option_map r_prefix (owner all_uris rs u)).
Proof.
  intros d rs c H. repeat split; [exact (own_p d rs c H) | exact (own_u d rs c H) | exact (L_synmap d rs c H)
    | exact (L_pmap d rs c H) | exact (L_trie d rs c H)].
Qed.
Print Assumptions C04_unique_owner.

(* bimap and reverse_bimap are mutually inverse bijections over the records *)
Theorem C04_bimap : forall d rs c, mk_conv true d rs = Val c -> forall p u,
  (dget p (bimap c) = Some u <-> rec_with rs p u) /\ (dget u (reverse_bimap c) = Some p <-> rec_with rs p u).
Proof. exact bimap_inverse. Qed.
Print Assumptions C04_bimap.
Theorem C04_bimap_inverse : forall d rs c, mk_conv true d rs = Val c -> forall p u,
  dget p (bimap c) = Some u <-> dget u (reverse_bimap c) = Some p.
Proof. exact bimap_reverse_bimap. Qed.
Print Assumptions C04_bimap_inverse.

(* every loader is the strict constructor applied to the records its input denotes, so the iff transfers *)
Theorem C04_loaders : forall d i, load true d (records_of i) = bind (records_of i) (mk_conv true d).
Proof. reflexivity. Qed.
Print Assumptions C04_loaders.
Theorem C04_outcome : forall d rs, load_code (mk_conv true d rs) = expected_code rs.
Proof. exact load_code_spec. Qed.
Print Assumptions C04_outcome.

Definition r (p u : str) ps us := {| r_prefix := p; r_uri := u; r_psyn := ps; r_usyn := us; r_pat := None |}.
Example C04_nonvacuous :
  strictb [r [97] [104] [[98]] []; r [99] [105] [] [[106]]]%N = true /\
  mk_conv true [58%N] [r [97] [104] [[98]] []; r [99] [105] [[98]] [[104]]]%N = Raise EDuplicateURIPrefixes /\
  mk_conv true [58%N] [r [97] [104] [[98]] []; r [99] [105] [[98]] []]%N = Raise EDuplicatePrefixes /\
  mk_record [97]%N [104]%N [[97]]%N [] None = Raise ERecordValidation.
Proof. vm_compute. auto. Qed.

(* the executable predicate of the run accepts the model's own observation on every valid case (constructor and every loader) *)
Theorem C04_P_model : forall k : lcase, valid_l k = true -> P_C04 k (model_lobs k) = true.
Proof. exact P_C04_model. Qed.
Print Assumptions C04_P_model.

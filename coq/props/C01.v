(* C01 -- URI compression always picks the longest registered URI prefix.
   Only statements closed by [exact]; the proofs live in proofs/.  [c] ranges over every strict converter:
   mk_conv true d rs = Val c says exactly that Converter(rs, delimiter=d) was constructed without error. *)
From Coq Require Import Permutation.
From Curies.model Require Import Str PyData Trie Conv Query Val Answer Spec CheckQ.
From Curies.proofs Require Import StrFacts TrieFacts IndexFacts QueryFacts C01Facts CheckFacts.

(* the trie refines the finite map, and longest_prefix_item returns its longest bound prefix *)
Theorem C01_trie_refines_map : forall (t : trie str) k v k',
  find k' (insert k v t) = if str_eq_dec k' k then Some v else find k' t.
Proof. exact (find_insert str). Qed.
Print Assumptions C01_trie_refines_map.

Theorem C01_lpi_longest : forall (t : trie str) key, lpi_ok str key t (lpi key t).
Proof. exact (lpi_spec str). Qed.
Print Assumptions C01_lpi_longest.

(* parse_uri = canonical prefix of the record owning the longest registered URI prefix of u, and the remainder *)
Theorem C01_parse_uri : forall d rs c, mk_conv true d rs = Val c -> forall u, parse_uri_core c u = sp_parse_uri rs u.
Proof. exact L_parse_uri. Qed.
Print Assumptions C01_parse_uri.

(* what "longest registered URI prefix" means: the naive definition is characterised declaratively *)
Theorem C01_longest_match_some : forall rs u p r, longest_match rs u = Some (p, r) ->
  In r rs /\ In p (all_uris r) /\ prefixb p u = true /\
  forall p' r', In r' rs -> In p' (all_uris r') -> prefixb p' u = true -> length p' <= length p.
Proof. exact longest_match_some. Qed.
Print Assumptions C01_longest_match_some.
Theorem C01_longest_match_none : forall rs u, longest_match rs u = None ->
  forall p' r', In r' rs -> In p' (all_uris r') -> prefixb p' u = false.
Proof. exact longest_match_none. Qed.
Print Assumptions C01_longest_match_none.

(* parse_uri / compress / is_uri / compress_strict in every mode *)
Theorem C01_answers : forall d rs c, mk_conv true d rs = Val c -> forall q, sel_C01 q = true -> answer c q = spec_answer rs d q.
Proof. intros d rs c Hc q Hq. apply (answer_spec d rs c Hc). destruct q; simpl in *; auto; discriminate. Qed.
Print Assumptions C01_answers.

Theorem C01_succeeds_iff : forall d rs c, mk_conv true d rs = Val c -> forall u,
  (is_uri c u = true <-> exists r p, In r rs /\ In p (all_uris r) /\ prefixb p u = true).
Proof. intros d rs c H u. exact (is_uri_iff d rs c u H). Qed.
Print Assumptions C01_succeeds_iff.

(* the answer does not depend on the order in which the records were supplied *)
Theorem C01_order_irrelevant : forall d rs rs' c c' q, Permutation rs rs' ->
  mk_conv true d rs = Val c -> mk_conv true d rs' = Val c' -> conv_query q = true -> answer c' q = answer c q.
Proof. exact order_irrelevant. Qed.
Print Assumptions C01_order_irrelevant.

(* the executable predicate run on the implementation accepts the model on every valid case *)
Theorem C01_P_model : forall k, valid_q k = true -> eval_P 1 k (model_qobs k) = 1%Z.
Proof. exact P_C01_model. Qed.
Print Assumptions C01_P_model.

(* non-vacuity: nested prefixes, a synonym nested inside another record's prefix, the empty URI prefix *)
Definition ex_rs : list record :=
  [ {| r_prefix := [103;111]; r_uri := [104;58;47;47;97;47]; r_psyn := [[71;79]]; r_usyn := [[104;58;47;47;97;47;98;47;99]]; r_pat := None |};
    {| r_prefix := [120]; r_uri := [104;58;47;47;97;47;98;47]; r_psyn := []; r_usyn := [[]]; r_pat := None |} ]%N.
Example C01_nonvacuous :
  exists c, mk_conv true [58%N] ex_rs = Val c
    /\ parse_uri_core c [104;58;47;47;97;47;98;47;99;49]%N = Some ([103;111], [49])%N
    /\ parse_uri_core c [104;58;47;47;97;47;98;47;49]%N = Some ([120], [49])%N
    /\ parse_uri_core c [122]%N = Some ([120], [122])%N.
Proof. eexists. split; [vm_compute; reflexivity|]. vm_compute. auto. Qed.

(* C15 -- references parse, print, compare and hash consistently.  PARTIAL with respect to pydantic / csv:
   frozen models, JSON round trip, string pre-validation and file I/O are runtime behaviour, exercised by the run. *)
From Curies.model Require Import Str PyData Trie Conv Query Val Answer Spec CheckQ Reference.
From Curies.proofs Require Import StrFacts IndexFacts QueryFacts SortFacts ReferenceFacts.
From Curies.proofs Require Import PModelRef.
From Curies.model Require Import Csv.
From Curies.proofs Require Import CsvFacts.

(* prints as prefix:identifier and parses back, splitting at the first separator only *)
Theorem C15_roundtrip : forall p i c n, ~ In 58%N p -> from_curie colon (curie (mk c p i n)) = Val (p, i).
Proof. exact curie_roundtrip. Qed.
Print Assumptions C15_roundtrip.
Theorem C15_first_separator : forall sep s p i, from_curie sep s = Val (p, i) ->
  s = p ++ sep ++ i /\ forall k, k < length p -> occurs_at sep s k = false.
Proof. exact from_curie_first. Qed.
Print Assumptions C15_first_separator.
Theorem C15_rejects_separator_free : forall sep s e, from_curie sep s = Raise e ->
  e = ENoCURIEDelimiter /\ forall k, occurs_at sep s k = false.
Proof. exact from_curie_rejects. Qed.
Print Assumptions C15_rejects_separator_free.

(* equality depends only on (prefix, identifier) across the three pydantic classes; it is an equivalence *)
Theorem C15_eq_pair : forall a b, is_pydantic (rf_cls a) = true -> is_pydantic (rf_cls b) = true -> (ref_eq a b = true <-> pair a = pair b).
Proof. exact ref_eq_pair. Qed.
Print Assumptions C15_eq_pair.
Theorem C15_eq_equivalence : (forall a, ref_eq a a = true) /\ (forall a b, ref_eq a b = ref_eq b a) /\
  (forall a b c, ref_eq a b = true -> ref_eq b c = true -> ref_eq a c = true).
Proof. split; [exact ref_eq_refl|split; [exact ref_eq_sym|exact ref_eq_trans]]. Qed.
Print Assumptions C15_eq_equivalence.
Theorem C15_name_never_matters : forall c1 c2 p i n1 n2, is_pydantic c1 = true -> is_pydantic c2 = true ->
  ref_eq (mk c1 p i n1) (mk c2 p i n2) = true.
Proof. exact ref_eq_name_class. Qed.
Print Assumptions C15_name_never_matters.
Theorem C15_tuple_is_plain : forall a b, rf_cls a = CTuple -> is_pydantic (rf_cls b) = true -> ref_eq a b = false /\ ref_eq b a = false.
Proof. exact tuple_never_equal_pydantic. Qed.
Print Assumptions C15_tuple_is_plain.
Theorem C15_hash : forall (h : str * str -> N) a b, ref_eq a b = true -> ref_hash h a = ref_hash h b.
Proof. exact ref_eq_hash. Qed.
Print Assumptions C15_hash.

(* '<' is the strict lexicographic order on the pair *)
Theorem C15_lt_strict_total : (forall a, ref_lt a a = false) /\
  (forall a b c, ref_lt a b = true -> ref_lt b c = true -> ref_lt a c = true) /\
  (forall a b, ref_lt a b = true \/ pair a = pair b \/ ref_lt b a = true).
Proof. split; [exact ref_lt_irrefl|split; [exact ref_lt_trans|exact ref_lt_total]]. Qed.
Print Assumptions C15_lt_strict_total.

(* with a converter as validation context the prefix is standardised; unknown prefixes are rejected *)
Theorem C15_ctx : forall d rs c p i, mk_conv true d rs = Val c ->
  validate_ctx c p i = match owner_by_prefix rs p with Some r => Val (r_prefix r, i) | None => Raise EPrefixStd end.
Proof. exact validate_ctx_spec. Qed.
Print Assumptions C15_ctx.

(* a triples row reads back to the same three references *)
Theorem C15_triples : forall s p o, ~ In 58%N (rf_prefix s) -> ~ In 58%N (rf_prefix p) -> ~ In 58%N (rf_prefix o) ->
  row_triple (triple_row s p o) = Val [pair s; pair p; pair o].
Proof. exact triples_roundtrip. Qed.
Print Assumptions C15_triples.

Example C15_nonvacuous :
  (from_curie colon (curie (mk CNamed [71;79] [49;58;50] (Some [110]))) = Val ([71;79], [49;58;50]) /\
   from_curie colon [110;111] = Raise ENoCURIEDelimiter /\
   ref_eq (mk CRef [97] [49] None) (mk CNamed [97] [49] (Some [110])) = true /\
   ref_eq (mk CTuple [97] [49] None) (mk CRef [97] [49] None) = false /\
   ref_lt (mk CRef [97] [50] None) (mk CRef [97;97] [49] None) = true)%N.
Proof. vm_compute. auto. Qed.

(* What the run observes through the modelled functions is the property written down directly (spec_ref_obs in model/Reference.v:
   the printed form, the pair read back, the split at the first separator, the equality table of the four classes, the order laws
   on pairs, the canonical prefix under a converter, the triples round trip) -- on every valid case in which the three CURIEs fit
   csv's field size limit; the run's predicate is "the observation equals spec_ref_obs" *)
Theorem C15_P_model : forall p i name p2 i2 p3 i3 sep s recs,
  no_colon p && no_colon p2 && no_colon p3 && negb (is_nil sep) && match recs with Some rs => strict_okb rs | None => true end = true ->
  triples_fit p i p2 i2 p3 i3 = true ->
  model_ref_obs p i name p2 i2 p3 i3 sep s recs = spec_ref_obs p i name p2 i2 p3 i3 sep s recs.
Proof. exact P_C15_model. Qed.
Print Assumptions C15_P_model.
(* ... and with the triples clause masked, on EVERY valid case *)
Theorem C15_P_model_excl : forall p i name p2 i2 p3 i3 sep s recs,
  no_colon p && no_colon p2 && no_colon p3 && negb (is_nil sep) && match recs with Some rs => strict_okb rs | None => true end = true ->
  mask_last (model_ref_obs p i name p2 i2 p3 i3 sep s recs) = spec_ref_obs p i name p2 i2 p3 i3 sep s recs.
Proof. exact P_C15_model_excl. Qed.
Print Assumptions C15_P_model_excl.

(* ---- the triples FILE (model/Csv.v: csv.writer with minimal quoting, csv.reader's state machine, the field size limit) ---- *)
(* every row of strings -- any code points: tabs, quotes, CR, LF, the empty string, the empty row -- reads back, provided each field
   is at most csv.field_size_limit() = 131072 characters long; and that bound is exact *)
Theorem C15_csv_roundtrip : forall d rows, delim_ok d -> Forall (Forall (short csv_field_limit)) rows ->
  csv_read d (csv_write_rows d rows) = Some rows.
Proof. exact csv_roundtrip. Qed.
Print Assumptions C15_csv_roundtrip.
Theorem C15_csv_roundtrip_iff : forall lim d rows, delim_ok d ->
  (csv_read_lim lim d (csv_write_rows d rows) = Some rows <-> Forall (Forall (short lim)) rows).
Proof. exact csv_roundtrip_iff. Qed.
Print Assumptions C15_csv_roundtrip_iff.
Theorem C15_triples_file : forall header ts, Forall (short csv_field_limit) header ->
  Forall (fun t => match t with (s, p, o) => curie_short s /\ curie_short p /\ curie_short o end) ts ->
  csv_read TAB (csv_write_rows TAB (header :: triple_rows ts)) = Some (header :: triple_rows ts).
Proof. exact csv_triples_file_roundtrip. Qed.
Print Assumptions C15_triples_file.
(* The clause "write_triples / read_triples give back an equal object" is FALSE of the faithful model for a reference whose CURIE
   is longer than the limit: the file is written, reading it raises csv.Error.  The same input fails on the implementation
   (identifier of 131071 characters): known finding K2 in known_findings.json, corpus/C15/K2_long_identifier.json. *)
Theorem C15_triples_long_refuted : exists i,
  triples_fit [97%N] i [97%N] [49%N] [97%N] [49%N] = false /\
  triples_file_roundtrip (mk CRef [97%N] i None) (mk CRef [97%N] [49%N] None) (mk CRef [97%N] [49%N] None) = VInt 0.
Proof. exact triples_long_refuted. Qed.
Print Assumptions C15_triples_long_refuted.

(* C16 -- bulk operations equal element-wise scalar calls and fail atomically.  PARTIAL: pandas (dtype, NA) and the
   csv module (quoting, line terminators) are runtime; the run compares real data frames and the bytes on disk.
   The theorems hold for EVERY scalar function sc (whatever the scalar method answers, bulk = element-wise application of
   it); C16_scalar names the scalar method each bulk operation instantiates sc with, and the run judges the real bulk
   calls against the implementation's own scalar answers on the same cells. *)
From Curies.model Require Import Str PyData Trie Conv Query Val Answer Spec CheckQ Bulk.
From Curies.proofs Require Import StrFacts BulkFacts.

(* the scalar method each bulk operation uses *)
Theorem C16_scalar : forall c st pa am x,
  scalar c BCompress st pa false x = compress c x st pa /\ scalar c BCompress st pa true x = compress_or_standardize c x st pa /\
  scalar c BExpand st pa false x = expand c x st pa /\ scalar c BExpand st pa true x = expand_or_standardize c x st pa /\
  scalar c BStdPrefix st pa am x = standardize_prefix c x st pa /\ scalar c BStdCurie st pa am x = standardize_curie c x st pa /\
  scalar c BStdUri st pa am x = standardize_uri c x st pa.
Proof. intros. repeat split. Qed.
Print Assumptions C16_scalar.
Theorem C16_instances : forall c f st pa am,
  pd_apply c f st pa am = pd_apply_g (scalar c f st pa am) /\ file_rows c f st pa am = file_rows_g (scalar c f st pa am) /\
  file_after c f st pa am = file_after_g (scalar c f st pa am).
Proof. intros. repeat split. Qed.
Print Assumptions C16_instances.

(* data frames: the (target) column holds the scalar results cell by cell (None = NA), everything else is preserved *)
Theorem C16_pd : forall sc rows col target t, pd_apply_g sc rows col target = Val t ->
  length t = length rows /\
  forall n row, nth_error rows n = Some row -> exists x v row', nth_error row col = Some (Some x) /\ sc x = Val v /\
    nth_error t n = Some row' /\
    (target < length row -> length row' = length row /\ nth_error row' target = Some v /\ forall m, m <> target -> nth_error row' m = nth_error row m) /\
    (length row <= target -> row' = row ++ [v]).
Proof. exact pd_ok. Qed.
Print Assumptions C16_pd.
Theorem C16_pd_error : forall sc rows col target e, pd_apply_g sc rows col target = Raise e ->
  exists n row, nth_error rows n = Some row /\
    (match nth_error row col with Some (Some x) => sc x | _ => Raise EOther end) = Raise e.
Proof. exact pd_error. Qed.
Print Assumptions C16_pd_error.

(* element-wise application stops at the first failing element, with that element's error *)
Theorem C16_first_error : forall (A B : Type) (f : A -> res B) l e, map_res f l = Raise e <->
  exists n x, nth_error l n = Some x /\ f x = Raise e /\ forall m x', m < n -> nth_error l m = Some x' -> exists y, f x' = Val y.
Proof. exact @map_res_first_error. Qed.
Print Assumptions C16_first_error.

(* files: the chosen column is converted cell by cell (missing results -> empty cell); header, other columns, row order kept *)
Theorem C16_file_ok : forall sc header rows col rows', file_rows_g sc rows col = Val rows' ->
  file_after_g sc header rows col = (Val tt, (header, rows')) /\ length rows' = length rows /\
  forall n row, nth_error rows n = Some row -> exists x v row', nth_error row col = Some x /\ sc x = Val v /\
     nth_error rows' n = Some row' /\ length row' = length row /\
     nth_error row' col = Some (match v with Some y => y | None => [] end) /\
     forall m, m <> col -> nth_error row' m = nth_error row m.
Proof. exact file_ok. Qed.
Print Assumptions C16_file_ok.
(* if any cell makes the operation raise (strict mode, or a short row), the file is what it was -- at whatever position *)
Theorem C16_file_atomic : forall sc header rows col,
  (exists n row, nth_error rows n = Some row /\
     (nth_error row col = None \/ exists x e, nth_error row col = Some x /\ sc x = Raise e)) ->
  exists e, file_after_g sc header rows col = (Raise e, (header, rows)).
Proof. exact file_atomic_any_position. Qed.
Print Assumptions C16_file_atomic.

(* C16 -- bulk operations equal element-wise scalar calls and fail atomically.  PARTIAL: pandas (dtype, NA) and the
   csv module (quoting, line terminators) are runtime; the run compares real data frames and the bytes on disk. *)
From Curies.model Require Import Str PyData Trie Conv Query Val Answer Spec CheckQ Bulk.
From Curies.proofs Require Import StrFacts BulkFacts.

(* the scalar method each bulk operation uses (definitional, stated for the reader) *)
Theorem C16_scalar : forall c st pa am x,
  scalar c BCompress st pa false x = compress c x st pa /\ scalar c BCompress st pa true x = compress_or_standardize c x st pa /\
  scalar c BExpand st pa false x = expand c x st pa /\ scalar c BExpand st pa true x = expand_or_standardize c x st pa /\
  scalar c BStdPrefix st pa am x = standardize_prefix c x st pa /\ scalar c BStdCurie st pa am x = standardize_curie c x st pa /\
  scalar c BStdUri st pa am x = standardize_uri c x st pa.
Proof. intros. repeat split. Qed.
Print Assumptions C16_scalar.

(* data frames: the (target) column holds the scalar results cell by cell (None = NA), everything else is preserved *)
Theorem C16_pd : forall c f st pa am rows col target t, pd_apply c f st pa am rows col target = Val t ->
  length t = length rows /\
  forall n row, nth_error rows n = Some row -> exists x v row', nth_error row col = Some (Some x) /\ scalar c f st pa am x = Val v /\
    nth_error t n = Some row' /\
    (target < length row -> length row' = length row /\ nth_error row' target = Some v /\ forall m, m <> target -> nth_error row' m = nth_error row m) /\
    (length row <= target -> row' = row ++ [v]).
Proof. exact pd_ok. Qed.
Print Assumptions C16_pd.
Theorem C16_pd_error : forall c f st pa am rows col target e, pd_apply c f st pa am rows col target = Raise e ->
  exists n row, nth_error rows n = Some row /\
    (match nth_error row col with Some (Some x) => scalar c f st pa am x | _ => Raise EOther end) = Raise e.
Proof. exact pd_error. Qed.
Print Assumptions C16_pd_error.

(* element-wise application stops at the first failing element, with that element's error *)
Theorem C16_first_error : forall (A B : Type) (f : A -> res B) l e, map_res f l = Raise e <->
  exists n x, nth_error l n = Some x /\ f x = Raise e /\ forall m x', m < n -> nth_error l m = Some x' -> exists y, f x' = Val y.
Proof. exact @map_res_first_error. Qed.
Print Assumptions C16_first_error.

(* files: the chosen column is converted cell by cell (missing results -> empty cell); header, other columns, row order kept *)
Theorem C16_file_ok : forall c f st pa am header rows col rows', file_rows c f st pa am rows col = Val rows' ->
  file_after c f st pa am header rows col = (Val tt, (header, rows')) /\ length rows' = length rows /\
  forall n row, nth_error rows n = Some row -> exists x v row', nth_error row col = Some x /\ scalar c f st pa am x = Val v /\
     nth_error rows' n = Some row' /\ length row' = length row /\
     nth_error row' col = Some (match v with Some y => y | None => [] end) /\
     forall m, m <> col -> nth_error row' m = nth_error row m.
Proof. exact file_ok. Qed.
Print Assumptions C16_file_ok.
(* if any cell makes the operation raise (strict mode, or a short row), the file is what it was -- at whatever position *)
Theorem C16_file_atomic : forall c f st pa am header rows col,
  (exists n row, nth_error rows n = Some row /\
     (nth_error row col = None \/ exists x e, nth_error row col = Some x /\ scalar c f st pa am x = Raise e)) ->
  exists e, file_after c f st pa am header rows col = (Raise e, (header, rows)).
Proof. exact file_atomic_any_position. Qed.
Print Assumptions C16_file_atomic.

(* C13 -- every loader yields exactly the converter its input format denotes.  Inputs are abstract data (ordered
   dict items, JSON-LD terms); file / URL reading and rdflib's namespace manager are runtime (file-vs-object equality is
   checked by the run).  Every loader is `Converter(records_of(input))`, so C01-C08 apply to the loaded converter. *)
From Coq Require Import Permutation.
From Curies.model Require Import Str PyData Trie Conv Query Val Answer Spec CheckQ Loaders CheckL.
From Curies.proofs Require Import StrFacts IndexFacts QueryFacts LoaderFacts.
From Curies.model Require Import CheckL.
From Curies.proofs Require Import PModelL.

Theorem C13_prefix_map : forall pm, records_of_prefix_map pm = Val (map (fun pu => rec0 (fst pu) (snd pu) [] [] None) pm).
Proof. exact prefix_map_records. Qed.
Print Assumptions C13_prefix_map.
(* each listed pair expands and is recognised on compression *)
Theorem C13_prefix_map_behaves : forall d pm c p u i, load true d (records_of_prefix_map pm) = Val c -> In (p, u) pm ->
  expand_pair c p i false false = Val (Some (u ++ i)) /\ is_uri c (u ++ i) = true.
Proof. exact prefix_map_expand. Qed.
Print Assumptions C13_prefix_map_behaves.

(* priority map: the first URI prefix canonical, the rest synonyms, entry by entry *)
Theorem C13_priority : forall pm rs, records_of_priority_map pm = Val rs ->
  length rs = length pm /\
  forall n p us, nth_error pm n = Some (p, us) -> exists u rest, us = u :: rest /\ ~ In u rest /\ nth_error rs n = Some (rec0 p u [] rest None).
Proof. exact priority_map_records. Qed.
Print Assumptions C13_priority.

(* reverse map: every listed URI prefix registered under its CURIE prefix, a shortest one canonical, nothing invented *)
Theorem C13_reverse : forall rpm rs, records_of_reverse_map rpm = Val rs ->
  (forall u p, In (u, p) rpm -> exists r, In r rs /\ r_prefix r = p /\ In u (all_uris r) /\
                                       (forall u', In u' (all_uris r) -> length (r_uri r) <= length u') /\ r_psyn r = []) /\
  (forall r u, In r rs -> In u (all_uris r) -> In (u, r_prefix r) rpm).
Proof. exact reverse_map_records. Qed.
Print Assumptions C13_reverse.

Theorem C13_epm : forall rs rs', records_of_epm rs = Val rs' ->
  rs' = rs /\ forall r, In r rs -> ~ In (r_prefix r) (r_psyn r) /\ ~ In (r_uri r) (r_usyn r).
Proof. exact epm_records. Qed.
Print Assumptions C13_epm.

(* JSON-LD: string terms and @prefix dictionaries are taken; @-keywords, the empty key and other terms are ignored *)
Theorem C13_jsonld : forall ctx, records_of_jsonld ctx = Val (map (fun pu => rec0 (fst pu) (snd pu) [] [] None) (jsonld_prefix_map ctx)).
Proof. exact jsonld_records. Qed.
Print Assumptions C13_jsonld.
Theorem C13_jsonld_terms : forall ctx k, NoDup (map fst ctx) ->
  dget k (jsonld_prefix_map ctx) =
  match List.find (fun kt => str_eqb k (fst kt)) ctx with
  | Some (_, TStr s) => if jsonld_key_ok k then Some s else None
  | Some (_, TPrefix s) => if jsonld_key_ok k then Some s else None
  | _ => None end.
Proof. exact jsonld_terms. Qed.
Print Assumptions C13_jsonld_terms.

(* upgrade_prefix_map: canonical form, always strict, independent of the dictionary order, nothing dropped *)
Theorem C13_upgrade_canonical : forall pm, NoDup (map fst pm) ->
  upgrade_prefix_map pm = Val (map (group_rec pm) (sort_uniq (map snd pm))).
Proof. exact upgrade_canonical. Qed.
Print Assumptions C13_upgrade_canonical.
Theorem C13_upgrade_strict : forall d pm, NoDup (map fst pm) -> exists rs c, upgrade_prefix_map pm = Val rs /\ mk_conv true d rs = Val c.
Proof. exact upgrade_strict. Qed.
Print Assumptions C13_upgrade_strict.
Theorem C13_upgrade_order : forall pm pm', NoDup (map fst pm) -> Permutation pm pm' -> upgrade_prefix_map pm' = upgrade_prefix_map pm.
Proof. exact upgrade_order_independent. Qed.
Print Assumptions C13_upgrade_order.
Theorem C13_upgrade_members : forall pm p u, NoDup (map fst pm) -> In (p, u) pm ->
  let r := group_rec pm u in
  In r (map (group_rec pm) (sort_uniq (map snd pm))) /\ r_uri r = u /\ r_usyn r = [] /\ In p (all_prefixes r) /\
  (forall q, In q (all_prefixes r) <-> In (q, u) pm) /\ (forall q, In q (all_prefixes r) -> str_leb (r_prefix r) q = true).
Proof. exact upgrade_members. Qed.
Print Assumptions C13_upgrade_members.

Example C13_nonvacuous :
  (upgrade_prefix_map [([99], [104]); ([97], [105]); ([98], [104])] = Val [rec0 [98] [104] [[99]] [] None; rec0 [97] [105] [] [] None] /\
   records_of_reverse_map [([104;47;120], [97]); ([104;47], [97]); ([105;47], [98])] =
     Val [rec0 [97] [104;47] [] [[104;47;120]] None; rec0 [98] [105;47] [] [] None] /\
   jsonld_prefix_map [([64;118], TStr [120]); ([], TStr [120]); ([97], TStr [104]); ([98], TPrefix [105]); ([99], TOther)] = [([97], [104]); ([98], [105])])%N.
Proof. vm_compute. auto. Qed.

(* the executable predicate of the run (the loaded records denote the input; strict; every query as the specification says)
   accepts the model's own observation on every valid case *)
Theorem C13_P_model : forall k : lcase, valid_l k = true -> P_C13 k (model_lobs k) = true.
Proof. exact P_C13_model. Qed.
Print Assumptions C13_P_model.

(* C19 -- discover returns a valid converter that compresses the URIs it learned from.
   [al] is the str.isalnum table (any); [recog u] says whether the optional pre-existing converter already recognises u
   (converter.is_uri(u); constantly false without a converter) -- every theorem holds for ANY recogniser, and C19_records_conv
   instantiates it for a strict converter over records rs.
   The model follows the code (dictionary of sets, first delimiter in priority order whose tail is alphanumeric,
   GitHub-issues special case); spec_records is the naive specification used by the run-time predicate. *)
From Coq Require Import Sorted.
From Curies.model Require Import Str PyData Trie Conv Query Val Answer Spec CheckQ Discovery CheckD.
From Curies.proofs Require Import StrFacts IndexFacts QueryFacts SortFacts LawFacts DiscoveryFacts PModelD.

(* the loop over a dictionary of sets computes exactly the specification *)
Theorem C19_records : forall al recog delims cutoff meta uris,
  discover_records al recog delims cutoff meta uris = spec_records al recog true delims cutoff meta uris.
Proof. exact discover_records_spec. Qed.
Print Assumptions C19_records.
(* ... and with a strict pre-existing converter c over rs, "recognised" means: some registered URI prefix of rs is a prefix of u *)
Theorem C19_records_conv : forall al known_rs c delims cutoff meta uris,
  match known_rs with Some rs => mk_conv true [58%N] rs = Val c | None => True end ->
  discover_records al (recog_of (match known_rs with Some _ => Some c | None => None end)) delims cutoff meta uris =
  spec_records al (recog_rs known_rs) true delims cutoff meta uris.
Proof. exact discover_records_conv. Qed.
Print Assumptions C19_records_conv.
(* the result depends on the recogniser only through its answers on the input URIs (what the run records) *)
Theorem C19_recog_ext : forall al recog recog' ex dl cutoff meta us, (forall u, In u us -> recog u = recog' u) ->
  spec_records al recog ex dl cutoff meta us = spec_records al recog' ex dl cutoff meta us.
Proof. exact spec_records_ext. Qed.
Print Assumptions C19_recog_ext.

(* a deterministic function of the SET of URIs: order and repetition are irrelevant *)
Theorem C19_set_fun : forall al recog ex dl cutoff meta us us', (forall u, In u us <-> In u us') ->
  spec_records al recog ex dl cutoff meta us = spec_records al recog ex dl cutoff meta us'.
Proof. exact spec_records_set. Qed.
Print Assumptions C19_set_fun.

(* always a valid strict converter *)
Theorem C19_valid : forall al recog ex dl cutoff meta us,
  exists D, mk_conv true [58%N] (spec_records al recog ex dl cutoff meta us) = Val D.
Proof. exact spec_records_valid. Qed.
Print Assumptions C19_valid.

(* named metaprefix1, metaprefix2, ... in sorted URI-prefix order; each URI prefix ends with one of the delimiters *)
Theorem C19_shape_sorted : forall al recog ex dl cutoff us, StronglySorted slt (spec_prefixes al recog ex dl cutoff us).
Proof. exact spec_prefixes_ssorted. Qed.
Print Assumptions C19_shape_sorted.
Theorem C19_shape_names : forall i meta ps, flat_map all_prefixes (number_from i meta ps) = map (fun k => meta ++ dec k) (seq i (length ps))
  /\ flat_map all_uris (number_from i meta ps) = ps.
Proof. intros. split; [apply number_from_prefixes|apply number_from_uris]. Qed.
Print Assumptions C19_shape_names.
Theorem C19_shape_delimiter : forall al recog ex dl cutoff us p,
  In p (spec_prefixes al recog ex dl cutoff us) -> ends_with_delim (eff_delims dl) p = true.
Proof. exact spec_prefixes_end. Qed.
Print Assumptions C19_shape_delimiter.

(* a URI prefix is kept iff at least `cutoff` distinct identifiers were seen for it *)
Theorem C19_cutoff : forall al recog ex dl cutoff us p,
  In p (spec_prefixes al recog ex dl cutoff us) <->
  In p (map fst (learnt al recog ex dl us)) /\ cut_ok cutoff (count_luids p (learnt al recog ex dl us)) = true.
Proof. exact spec_prefixes_cutoff. Qed.
Print Assumptions C19_cutoff.

(* with no cutoff every learnable input URI compresses under the result and expands back to itself
   (skipped = recognised by the given converter, or -- known finding K1 -- a GitHub issue URI when ex = true) *)
Theorem C19_roundtrip : forall al recog ex dl cutoff meta us u p l D,
  match cutoff with None => True | Some k => k = 0 end -> ~ In 58%N meta ->
  In u us -> skipped recog ex u = false -> classify al (eff_delims dl) u = Some (p, l) ->
  mk_conv true [58%N] (spec_records al recog ex dl cutoff meta us) = Val D ->
  exists x, compress D u false false = Val (Some x) /\ expand D x false false = Val (Some u).
Proof. exact roundtrip. Qed.
Print Assumptions C19_roundtrip.

(* compression of a learnable URI needs no condition on the metaprefix (expanding back does: CURIE syntax) *)
Theorem C19_compresses : forall al recog ex dl cutoff meta us u p l D,
  match cutoff with None => True | Some k => k = 0 end ->
  In u us -> skipped recog ex u = false -> classify al (eff_delims dl) u = Some (p, l) ->
  mk_conv true [58%N] (spec_records al recog ex dl cutoff meta us) = Val D ->
  exists x, compress D u false false = Val (Some x).
Proof. exact compresses. Qed.
Print Assumptions C19_compresses.

(* URIs already recognised by a supplied converter contribute nothing *)
Theorem C19_known_skip : forall al recog ex dl cutoff meta us,
  spec_records al recog ex dl cutoff meta us =
  spec_records al recog ex dl cutoff meta (filter (fun u => negb (recog u)) us).
Proof. exact known_skip. Qed.
Print Assumptions C19_known_skip.

(* the executable predicate of the run (known finding K1 excluded) accepts the model's own observations on every valid case *)
Theorem C19_P_model : forall k, valid_d k = true -> P_C19 true k (model_dobs k) = true.
Proof. exact P_C19_model. Qed.
Print Assumptions C19_P_model.

(* decimal numbering is injective (so the generated CURIE prefixes never clash) *)
Theorem C19_dec_injective : forall n m, dec n = dec m -> n = m.
Proof. exact dec_inj. Qed.
Print Assumptions C19_dec_injective.

(* K1: without the exclusion the round-trip statement is false of the faithful model *)
Theorem C19_github_refuted :
  let al := (fun c => (48 <=? c) && (c <=? 57))%N in
  let u := (github ++ [47;111;47;114;47;105;115;115;117;101;115;47;49;50])%N in
  classify al default_delimiters u <> None /\
  exists D, discover al (fun _ => false) [] None [110;115]%N [u] = Val D /\ compress D u false false = Val None.
Proof. exact github_refuted. Qed.
Print Assumptions C19_github_refuted.

Example C19_nonvacuous :
  let al := (fun c => (48 <=? c) && (c <=? 57) || (97 <=? c) && (c <=? 122))%N in
  exists D, discover al (fun _ => false) [] (Some 2) [110;115]%N [[104;47;97;95;49]; [104;47;97;95;50]; [104;47;98]; [104;47;97;95;49]]%N = Val D
    /\ map r_uri (recs D) = [[104;47;97;95]]%N /\ map r_prefix (recs D) = [[110;115;49]]%N.
Proof. vm_compute. eexists. repeat split; reflexivity. Qed.

(* C12 -- URI-prefix remapping and rewiring re-point records without losing information.
   repoint c r n skip is what remap_uri_prefixes (skip = false) and rewire (skip = true) do to one record r whose first
   hit in the mapping is the new URI prefix n; step applies it to every record. *)
From Curies.model Require Import Str PyData Trie Conv Query Val Answer Spec CheckQ Mutate Reconcile.
From Curies.proofs Require Import StrFacts IndexFacts QueryFacts C04Facts MutateFacts ReconcileFacts.
From Curies.model Require Import CheckR.
From Curies.proofs Require Import PModelR12.

(* TransitiveError exactly when some string is both a key and a value *)
Theorem C12_transitive : forall c m, remap_uri_records c m = Raise ETransitive <-> exists s, In s (map fst m) /\ In s (map snd m).
Proof. exact transitive_iff. Qed.
Print Assumptions C12_transitive.

(* per record: identical CURIE prefix, synonyms and pattern *)
Theorem C12_curie_same : forall c r n skip, let r' := repoint c r n skip in
  r_prefix r' = r_prefix r /\ r_psyn r' = r_psyn r /\ r_pat r' = r_pat r.
Proof. exact repoint_curie_side. Qed.
Print Assumptions C12_curie_same.
(* keeps every URI prefix it had; gains at most the mapped new one *)
Theorem C12_kept : forall c r n skip x, In x (all_uris r) -> In x (all_uris (repoint c r n skip)).
Proof. exact repoint_keeps. Qed.
Print Assumptions C12_kept.
Theorem C12_gain : forall c r n skip x, In x (all_uris (repoint c r n skip)) -> x = n \/ In x (all_uris r).
Proof. exact repoint_gains. Qed.
Print Assumptions C12_gain.
(* the new one becomes canonical exactly when it is unused in c or already a synonym of that record
   (the replaced canonical URI prefix becomes a synonym) ... *)
Theorem C12_canonical : forall c r n skip, (dhas n (rpmap c) = false \/ In n (r_usyn r)) -> n <> r_uri r ->
  r_uri (repoint c r n skip) = n /\ In (r_uri r) (r_usyn (repoint c r n skip)).
Proof. exact repoint_canonical. Qed.
Print Assumptions C12_canonical.
(* ... and a new URI prefix owned by another record leaves the record untouched *)
Theorem C12_clash_noop : forall c r n skip, dhas n (rpmap c) = true -> ~ In n (r_usyn r) -> repoint c r n skip = r.
Proof. exact repoint_clash_noop. Qed.
Print Assumptions C12_clash_noop.
Theorem C12_registered_means : forall c, swf c -> forall n, dhas n (rpmap c) = true <-> exists y, In y (recs c) /\ In n (all_uris y).
Proof. exact ReconcileFacts.known_uri. Qed.
Print Assumptions C12_registered_means.

(* rewiring a CURIE prefix unknown to the converter adds nothing *)
Theorem C12_unknown : forall c m, (forall r k, In r (recs c) -> In k (all_prefixes r) -> dhas k m = false) -> rewire_records c m = recs c.
Proof. exact rewire_unknown. Qed.
Print Assumptions C12_unknown.

(* injective mappings: the result is a consistent strict converter over the re-pointed records *)
Theorem C12_remap_uri_ok : forall c m, swf c -> NoDup (map snd m) -> (forall s, In s (map fst m) -> In s (map snd m) -> False) ->
  exists R, remap_uri_prefixes c m = Val R /\ recs R = sort_records (map (step c m all_uris false) (recs c)) /\ swf R.
Proof. exact remap_uri_ok. Qed.
Print Assumptions C12_remap_uri_ok.
Theorem C12_rewire_ok : forall c m, swf c -> NoDup (map snd m) ->
  exists R, rewire c m = Val R /\ recs R = sort_records (rewire_records c m) /\ swf R.
Proof. exact rewire_ok. Qed.
Print Assumptions C12_rewire_ok.
(* applying the same rewiring twice equals applying it once *)
Theorem C12_idem : forall c m, swf c -> NoDup (map snd m) ->
  exists R R2, rewire c m = Val R /\ rewire R m = Val R2 /\ recs R2 = recs R.
Proof. exact rewire_idempotent. Qed.
Print Assumptions C12_idem.

Definition r (p u : str) ps us := {| r_prefix := p; r_uri := u; r_psyn := ps; r_usyn := us; r_pat := None |}.
Example C12_nonvacuous :
  (exists c, mk_conv true [58] [r [97] [104] [] [[105]]; r [98] [106] [] []] = Val c /\
    (exists R, remap_uri_prefixes c [([104], [110]); ([106], [105])] = Val R /\
       recs R = [r [97] [110] [] [[104]; [105]]; r [98] [106] [] []]) /\
    remap_uri_prefixes c [([104], [106]); ([106], [110])] = Raise ETransitive /\
    (exists R, rewire c [([97], [105])] = Val R /\ recs R = [r [97] [105] [] [[104]]; r [98] [106] [] []]))%N.
Proof. eexists. split; [vm_compute; reflexivity|]. split; [eexists; split; vm_compute; reflexivity|]. split; [vm_compute; reflexivity|].
  eexists; split; vm_compute; reflexivity. Qed.

(* the executable predicate of the run accepts the model's own observation on every valid case (remap_uri_prefixes and rewire) *)
Theorem C12_P_model : forall k : rcase, valid_r k = true ->
  (match rc_op k with DRemapUri _ | DRewire _ => True | _ => False end) -> P_C12 k (model_robs k) = true.
Proof. exact P_C12_model. Qed.
Print Assumptions C12_P_model.

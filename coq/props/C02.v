(* C02 -- CURIE expansion resolves any prefix or synonym to the canonical URI prefix. *)
From Curies.model Require Import Str PyData Trie Conv Query Val Answer Spec CheckQ.
From Curies.proofs Require Import StrFacts TrieFacts IndexFacts QueryFacts CheckFacts.

(* str.partition splits at the FIRST occurrence of the (possibly multi-character) delimiter *)
Theorem C02_partition_some : forall sep s a b, partition sep s = Some (a, b) ->
  s = a ++ sep ++ b /\ forall i, i < length a -> occurs_at sep s i = false.
Proof. exact partition_some. Qed.
Print Assumptions C02_partition_some.
Theorem C02_partition_none : forall sep s, partition sep s = None -> forall i, occurs_at sep s i = false.
Proof. exact partition_none. Qed.
Print Assumptions C02_partition_none.
Theorem C02_partition_first : forall sep a b, (forall i, i < length a -> occurs_at sep (a ++ sep ++ b) i = false) ->
  partition sep (a ++ sep ++ b) = Some (a, b).
Proof. exact partition_first. Qed.
Print Assumptions C02_partition_first.
Theorem C02_partition_single : forall d a b, ~ In d a -> partition [d] (a ++ [d] ++ b) = Some (a, b).
Proof. exact partition_single. Qed.
Print Assumptions C02_partition_single.

(* expand = split at the first delimiter, find the record listing the prefix (canonical or synonym,
   the empty prefix included), canonical URI prefix ++ untouched remainder; unknown prefix -> nothing *)
Theorem C02_expand : forall d rs c, mk_conv true d rs = Val c -> forall s st pa,
  expand c s st pa = wrap st pa EExpansion s (sp_expand rs d s).
Proof. exact A_expand. Qed.
Print Assumptions C02_expand.

(* expand_pair / expand_reference agree with expand; expand_all / expand_pair_all: canonical first, one per synonym *)
Theorem C02_expand_pair : forall d rs c, mk_conv true d rs = Val c -> forall p i st pa,
  expand_reference c (p, i) st pa = wrap st pa EExpansion (p ++ d ++ i) (sp_expand_pair rs p i).
Proof. exact A_expand_ref. Qed.
Print Assumptions C02_expand_pair.
Theorem C02_expand_pair_all : forall d rs c, mk_conv true d rs = Val c -> forall p i st,
  expand_pair_all c p i st = wrap1 st EExpansion (sp_expand_pair_all rs p i).
Proof. exact A_expand_pair_all. Qed.
Print Assumptions C02_expand_pair_all.
Theorem C02_expand_all : forall d rs c, mk_conv true d rs = Val c -> forall s st,
  expand_all c s st = wrap1 st EPrefixStd (sp_expand_all rs d s).
Proof. exact A_expand_all. Qed.
Print Assumptions C02_expand_all.

Theorem C02_answers : forall d rs c, mk_conv true d rs = Val c -> forall q, sel_C02 q = true -> answer c q = spec_answer rs d q.
Proof. intros d rs c Hc q Hq. apply (answer_spec d rs c Hc). destruct q; simpl in *; auto; discriminate. Qed.
Print Assumptions C02_answers.

(* the index lookups really are "the unique record that lists p" *)
Theorem C02_unique_owner : forall d rs c, mk_conv true d rs = Val c -> one_owner all_prefixes rs /\ one_owner all_uris rs.
Proof. intros d rs c H. split; [exact (own_p d rs c H) | exact (own_u d rs c H)]. Qed.
Print Assumptions C02_unique_owner.

Theorem C02_P_model : forall k, valid_q k = true -> eval_P 2 k (model_qobs k) = 1%Z.
Proof. exact P_C02_model. Qed.
Print Assumptions C02_P_model.

(* non-vacuity: empty default prefix, synonym, identifier containing the delimiter, multi-character delimiter *)
Definition ex_rs : list record :=
  [ {| r_prefix := []; r_uri := [100;47]; r_psyn := [[103]]; r_usyn := [[101;47]]; r_pat := None |} ]%N.
Example C02_nonvacuous :
  exists c, mk_conv true [58;58]%N ex_rs = Val c
    /\ expand c [58;58;120;58;58;121]%N false false = Val (Some [100;47;120;58;58;121]%N)
    /\ expand_all c [103;58;58;120]%N false = Val (Some [[100;47;120]; [101;47;120]]%N)
    /\ expand c [104;58;58;120]%N false false = Val None.
Proof. eexists. split; [vm_compute; reflexivity|]. vm_compute. auto. Qed.

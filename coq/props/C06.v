(* C06 -- standardisation is canonical, idempotent and meaning-preserving. *)
From Curies.model Require Import Str PyData Trie Conv Query Val Answer Spec CheckQ.
From Curies.proofs Require Import StrFacts IndexFacts QueryFacts LawFacts CheckFacts PModelFacts.

Theorem C06_answers : forall d rs c, mk_conv true d rs = Val c -> forall q, sel_C06 q = true -> answer c q = spec_answer rs d q.
Proof. intros d rs c Hc q Hq. apply (answer_spec d rs c Hc). destruct q; simpl in *; auto; discriminate. Qed.
Print Assumptions C06_answers.

(* canonical prefix of the owning record and nothing else *)
Theorem C06_prefix : forall d rs c, mk_conv true d rs = Val c -> forall p,
  standardize_prefix c p false false = Val (option_map r_prefix (owner_by_prefix rs p)).
Proof. exact std_prefix_eq. Qed.
Print Assumptions C06_prefix.
(* only the prefix part is rewritten *)
Theorem C06_curie : forall d rs c, mk_conv true d rs = Val c -> forall s,
  standardize_curie c s false false = Val (sp_std_curie rs d s).
Proof. exact std_curie_eq. Qed.
Print Assumptions C06_curie.
(* longest matching URI prefix replaced by the record's canonical URI prefix, identifier kept *)
Theorem C06_uri : forall d rs c, mk_conv true d rs = Val c -> forall u st pa,
  standardize_uri c u st pa = wrap st pa EURIStd u (sp_std_uri rs u).
Proof. exact A_std_uri. Qed.
Print Assumptions C06_uri.

Theorem C06_prefix_idem : forall d rs c, mk_conv true d rs = Val c -> forall p y,
  standardize_prefix c p false false = Val (Some y) -> standardize_prefix c y false false = Val (Some y).
Proof. exact LawFacts.C06_prefix_idem. Qed.
Print Assumptions C06_prefix_idem.
Theorem C06_curie_idem_meaning : forall d rs c, mk_conv true d rs = Val c -> forall s y, H_d d rs ->
  standardize_curie c s false false = Val (Some y) ->
  standardize_curie c y false false = Val (Some y) /\ expand c y false false = expand c s false false.
Proof. exact LawFacts.C06_curie_idem. Qed.
Print Assumptions C06_curie_idem_meaning.
Theorem C06_uri_idem_meaning : forall d rs c, mk_conv true d rs = Val c -> forall u y, prefix_free rs ->
  standardize_uri c u false false = Val (Some y) ->
  standardize_uri c y false false = Val (Some y) /\ compress c y false false = compress c u false false.
Proof. exact LawFacts.C06_uri_idem. Qed.
Print Assumptions C06_uri_idem_meaning.

(* prefix-freeness is needed for idempotence of standardize_uri *)
Definition nested : list record :=
  [ {| r_prefix := [97]; r_uri := [104;47;120]; r_psyn := []; r_usyn := [[103;47]]; r_pat := None |};
    {| r_prefix := [98]; r_uri := [104;47;120;121]; r_psyn := []; r_usyn := []; r_pat := None |} ]%N.
Example C06_uri_idem_needs_prefix_free :
  exists c, mk_conv true [58%N] nested = Val c /\
    standardize_uri c [103;47;121;49]%N false false = Val (Some [104;47;120;121;49]%N) /\
    standardize_uri c [104;47;120;121;49]%N false false = Val (Some [104;47;120;121;49]%N) /\
    compress c [103;47;121;49]%N false false = Val (Some [97;58;121;49]%N) /\
    compress c [104;47;120;121;49]%N false false = Val (Some [98;58;49]%N).
Proof. eexists. split; [vm_compute; reflexivity|]. vm_compute. auto. Qed.

(* the executable predicate P_C06 accepts the model's own answers on every valid case *)
Theorem C06_P_model : forall k, valid_q k = true -> eval_P 6 k (model_qobs k) = 1%Z.
Proof. exact PModelFacts.P_C06_model. Qed.
Print Assumptions C06_P_model.

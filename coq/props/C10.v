(* C10 -- deriving a new converter never alters the converters it was derived from.
   Object-level model (model/Heap.v): Record objects are heap cells, a converter's records list is a list of addresses;
   the index dictionaries are created afresh by every Converter(...) and hold immutable strings.
   frame n h0 h': the first n cells (everything that existed before the call) are what they were;
   owned n R h': the result refers only to cells allocated by the call. *)
From Curies.model Require Import Str PyData Trie Conv Query Mutate Reconcile Heap.
From Curies.proofs Require Import StrFacts MutateFacts HeapFacts.
From Curies.model Require Import CheckR CheckH.
From Curies.proofs Require Import PModelH.
From Curies.proofs Require Import HeapSimFacts.

(* chain: no pre-existing cell is written, the result owns only new cells *)
Theorem C10_chain : forall fold_c h Cs sens h' R, h_chain fold_c h Cs sens = Val (h', R) ->
  frame (length h) h h' /\ owned (length h) R h'.
Proof. exact h_chain_frame. Qed.
Print Assumptions C10_chain.
Theorem C10_subconverter : forall h C P, let '(h', R) := h_sub h C P in frame (length h) h h' /\ owned (length h) R h'.
Proof. exact h_sub_frame. Qed.
Print Assumptions C10_subconverter.
(* remap_curie_prefixes, remap_uri_prefixes, rewire: the copies are mutated, never the originals -- whatever is written *)
Theorem C10_remap : forall h C f, let '(h', R) := h_remap h C f in frame (length h) h h' /\ owned (length h) R h'.
Proof. exact h_remap_frame. Qed.
Print Assumptions C10_remap.
Theorem C10_copy : forall h C, frame (length h) h (fst (copy_records h C)) /\
  owned (length h) (snd (copy_records h C)) (fst (copy_records h C)) /\ length (snd (copy_records h C)) = length C.
Proof. exact copy_records_frame. Qed.
Print Assumptions C10_copy.

(* hence every input converter (all of whose Record objects existed before the call) has exactly the records it had *)
Theorem C10_inputs_same : forall n h0 h' C, frame n h0 h' -> (forall a, In a C -> a < n) -> view h' C = view h0 C.
Proof. exact inputs_unchanged. Qed.
Print Assumptions C10_inputs_same.

(* later modification of the derived converter (any history of add_record / add_prefix with freshly created records,
   accepted or rejected) does not leak back either *)
Theorem C10_add_record : forall fold_c n h0 h R a cs mg h' R', frame n h0 h -> owned n R h -> n <= a < length h ->
  h_add_record fold_c h R a cs mg = Val (h', R') -> frame n h0 h' /\ owned n R' h' /\ length h' = length h.
Proof. exact h_add_record_frame. Qed.
Print Assumptions C10_add_record.
Theorem C10_later : forall fold_c n h0 ops hr, frame n h0 (fst hr) -> owned n (snd hr) (fst hr) ->
  frame n h0 (fst (fold_left (follow_step fold_c) ops hr)) /\
  owned n (snd (fold_left (follow_step fold_c) ops hr)) (fst (fold_left (follow_step fold_c) ops hr)).
Proof. exact follow_frame. Qed.
Print Assumptions C10_later.

(* without the copies the statement is false: defect D3 *)
Theorem C10_sharing_refuted :
  let ra := {| r_prefix := [97%N]; r_uri := [104%N]; r_psyn := []; r_usyn := []; r_pat := None |} in
  let rb := {| r_prefix := [98%N]; r_uri := [104%N]; r_psyn := []; r_usyn := []; r_pat := None |} in
  let h := [ra; rb] in
  (exists h' R, h_chain_shared (fun c => [c]) h [[0]; [1]] true = Val (h', R) /\ deref h' 0 <> deref h 0 /\ R = [0]) /\
  (exists h' R, h_chain (fun c => [c]) h [[0]; [1]] true = Val (h', R) /\ deref h' 0 = deref h 0 /\ deref h' 1 = deref h 1 /\ R = [2]).
Proof. exact sharing_refuted. Qed.
Print Assumptions C10_sharing_refuted.

(* the object-level chain refines the value-level chain of C09 (Mutate.chain): same outcome (result or the same error),
   and the records of the value-level result are exactly the cells the object-level result refers to -- so the
   theorems of C09 about chain transfer to the object level *)
Theorem C10_chain_refines : forall fold_c h Cs cs sens,
  Forall2 (fun ci Ci => recs ci = view h Ci /\ forall a, In a Ci -> a < length h) cs Cs ->
  match chain fold_c cs sens, h_chain fold_c h Cs sens with
  | Val ca, Val (h', R) => recs ca = view h' R /\ MutateFacts.swf ca
  | Raise e, Raise e' => e = e'
  | _, _ => False
  end.
Proof. exact h_chain_sim. Qed.
Print Assumptions C10_chain_refines.

(* the executable predicate of the run (no input changed at any step, no Record object shared) accepts the model's own observation
   for every case, every follow-up history, with and without discover *)
Theorem C10_P_model : forall (k : rcase) (cs : list conv) (fol : list (record * bool * bool)) (disc : bool),
  input_convs k = Val cs -> P_C10 (model_hobs k cs fol disc) = true.
Proof. exact P_C10_model. Qed.
Print Assumptions C10_P_model.

(* The object-level model computes the value-level derivations that C09 / C11 / C12 are proved about -- for all five operations,
   in the setting of the run (model_hobs: the heap holds the records of the input converters, laid out one after the other):
   same converter (all fields) or same error for get_subconverter, remap_curie_prefixes, remap_uri_prefixes and rewire
   (h_outcome = the strict constructor applied to the records the object-level result holds); same records / same error for chain *)
Theorem C10_derive_refines : forall k cs, input_convs k = Val cs ->
  let h0 := concat (map recs cs) in let Cs := layout (map recs cs) 0 in
  laid h0 cs Cs /\
  derive_code (h_outcome (h_derive (fold_of (rc_fold k)) k h0 Cs cs)) = derive_code (derive k cs) /\
  match rc_op k with
  | DChain _ =>
      match derive k cs, h_derive (fold_of (rc_fold k)) k h0 Cs cs with
      | Val ca, Val (h', R) => recs ca = view h' R /\ MutateFacts.swf ca
      | Raise e, Raise e' => e = e'
      | _, _ => False
      end
  | _ => h_outcome (h_derive (fold_of (rc_fold k)) k h0 Cs cs) = derive k cs
  end.
Proof. exact model_hobs_derive. Qed.
Print Assumptions C10_derive_refines.
(* the fresh cells of a sub-converter hold exactly the kept records; those of a remapping exactly what the value-level function computes *)
Theorem C10_sub_view : forall h C P h' R, valid h C -> h_sub h C P = (h', R) ->
  view h' R = filter (fun r => existsb (fun p => mem p P) (all_prefixes r)) (view h C).
Proof. exact h_sub_view. Qed.
Print Assumptions C10_sub_view.
Theorem C10_remap_view : forall h C f h' R, valid h C -> length (f (view h C)) = length C -> h_remap h C f = (h', R) ->
  view h' R = f (view h C).
Proof. exact h_remap_view. Qed.
Print Assumptions C10_remap_view.

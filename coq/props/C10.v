(* placeholder *)

(* C03 -- compression is lossless; compress and expand are inverse on prefix-free maps.
   H_d: every canonical CURIE prefix p has its first occurrence of the delimiter in p ++ d at |p|
   ("prefixes do not contain the delimiter"; for one-character delimiters exactly [~ In d p]). *)
From Curies.model Require Import Str PyData Trie Conv Query Val Answer Spec CheckQ.
From Curies.proofs Require Import StrFacts IndexFacts QueryFacts LawFacts CheckFacts PModelFacts.

Theorem C03_lossless : forall d rs c, mk_conv true d rs = Val c -> forall u x, H_d d rs ->
  compress c u false false = Val (Some x) ->
  (exists l, expand_all c x false = Val (Some l) /\ In u l) /\
  expand c x false false = standardize_uri c u false false /\ expand c x false false <> Val None.
Proof. exact LawFacts.C03_lossless. Qed.
Print Assumptions C03_lossless.

Theorem C03_std_uri_id : forall d rs c, mk_conv true d rs = Val c -> forall r i, In r rs ->
  longest_match rs (r_uri r ++ i) = Some (r_uri r, r) ->
  standardize_uri c (r_uri r ++ i) false false = Val (Some (r_uri r ++ i)).
Proof. exact LawFacts.C03_std_uri_id. Qed.
Print Assumptions C03_std_uri_id.

Theorem C03_expand_compressible : forall d rs c, mk_conv true d rs = Val c -> forall s u,
  expand c s false false = Val (Some u) -> is_uri c u = true.
Proof. exact LawFacts.C03_expand_compressible. Qed.
Print Assumptions C03_expand_compressible.

Theorem C03_inverse_1 : forall d rs c, mk_conv true d rs = Val c -> forall s u, prefix_free rs ->
  expand c s false false = Val (Some u) ->
  compress c u false false = standardize_curie c s false false /\ compress c u false false <> Val None.
Proof. exact LawFacts.C03_inverse_1. Qed.
Print Assumptions C03_inverse_1.

Theorem C03_inverse_2 : forall d rs c, mk_conv true d rs = Val c -> forall u x, H_d d rs ->
  compress c u false false = Val (Some x) -> expand c x false false = standardize_uri c u false false.
Proof. exact LawFacts.C03_inverse_2. Qed.
Print Assumptions C03_inverse_2.

(* inverse bijections between standard CURIEs and standard URIs *)
Theorem C03_bijection_curie : forall d rs c, mk_conv true d rs = Val c -> forall s y u, prefix_free rs -> H_d d rs ->
  standardize_curie c s false false = Val (Some y) -> expand c y false false = Val (Some u) ->
  compress c u false false = Val (Some y).
Proof. exact LawFacts.C03_bijection_curie. Qed.
Print Assumptions C03_bijection_curie.
Theorem C03_bijection_uri : forall d rs c, mk_conv true d rs = Val c -> forall u y x, prefix_free rs -> H_d d rs ->
  standardize_uri c u false false = Val (Some y) -> compress c y false false = Val (Some x) ->
  expand c x false false = Val (Some y).
Proof. exact LawFacts.C03_bijection_uri. Qed.
Print Assumptions C03_bijection_uri.

Theorem C03_delim_safe_single : forall ch p, delim_safe [ch] p = true <-> ~ In ch p.
Proof. exact delim_safe_single. Qed.
Print Assumptions C03_delim_safe_single.
Theorem C03_prefix_freeb : forall rs, prefix_freeb rs = true <-> prefix_free rs.
Proof. exact prefix_freeb_spec. Qed.
Print Assumptions C03_prefix_freeb.

(* the prefix-freeness hypothesis is needed: with nested prefixes compress (expand s) <> standardize_curie s *)
Definition nested : list record :=
  [ {| r_prefix := [97]; r_uri := [104;47]; r_psyn := []; r_usyn := []; r_pat := None |};
    {| r_prefix := [98]; r_uri := [104;47;120]; r_psyn := []; r_usyn := []; r_pat := None |} ]%N.
Example C03_inverse_needs_prefix_free :
  exists c, mk_conv true [58%N] nested = Val c /\
    expand c [97;58;120;49]%N false false = Val (Some [104;47;120;49]%N) /\
    compress c [104;47;120;49]%N false false = Val (Some [98;58;49]%N) /\
    standardize_curie c [97;58;120;49]%N false false = Val (Some [97;58;120;49]%N).
Proof. eexists. split; [vm_compute; reflexivity|]. vm_compute. auto. Qed.
(* non-vacuity of the hypotheses *)
Example C03_hypotheses_satisfiable :
  prefix_freeb [ {| r_prefix := [97]; r_uri := [104;47]; r_psyn := []; r_usyn := [[103;47]]; r_pat := None |} ]%N = true
  /\ delim_safe [58%N] [97%N] = true.
Proof. vm_compute. auto. Qed.

(* the executable predicate P_C03 (these laws, evaluated on observed answers) accepts the model's own answers on every valid case *)
Theorem C03_P_model : forall k, valid_q k = true -> eval_P 3 k (model_qobs k) = 1%Z.
Proof. exact PModelFacts.P_C03_model. Qed.
Print Assumptions C03_P_model.

(* Obligations about the function bodies of the working tree (gen/Gen.v, frag_table, written by translator/frag.py on this run); see
   FragObl_base.v.  This file: Converter.__init__ -- sort by canonical prefix, in strict mode refuse URI-prefix clashes FIRST and
   CURIE-prefix clashes second, then fill the seven attributes -- is the model's mk_conv, for every list of records, every delimiter
   and both values of strict, whatever the object held before.  The two duplicate finders and _get_pattern_map (comprehensions) are
   oracles answering what the model computes (dups, patmap_of); the three index builders are the translated functions of
   FragObl_ctor.v; StringTrie(d) is the model's trie_of. *)
From Coq Require Import List NArith Bool Arith Lia.
From Curies.model Require Import Str PyData Trie Conv Query PyFrag.
From Curies.proofs Require Import StrFacts.
From Curies.gen Require Import Gen.
From Curies.gen Require Import FragObl_ctor.
Import ListNotations.

Definition init_oracle (f : nat) (args : list pv) : option eres :=
  match args with
  | [PList l] =>
      match as_recs_pv l with
      | Some rs =>
          if Nat.eqb f f_oracle_dup_uri_prefixes then Some (EV (PList (map (fun _ => PNone) (dups all_uris rs))))
          else if Nat.eqb f f_oracle_dup_prefixes then Some (EV (PList (map (fun _ => PNone) (dups all_prefixes rs))))
          else if Nat.eqb f f_oracle_pattern_map then Some (EV (PDict (sdv (patmap_of rs))))
          else None
      | None => None end
  | _ => None
  end.

Lemma as_recs_map' l : as_recs_pv (map PRec l) = Some l.
Proof. induction l as [|x l IH]; [reflexivity|]. cbn. rewrite IH. reflexivity. Qed.
Lemma as_sdict_sdv m : as_sdict_pv (sdv m) = Some m.
Proof. induction m as [|[k v] m IH]; [reflexivity|]. cbn. unfold sdv in IH. rewrite IH. reflexivity. Qed.

Lemma run_with_S' oracle k tbl c f args :
  run_with oracle (S k) tbl c f args =
  match oracle f args with
  | Some r => r
  | None => match nth_error tbl f with Some fd => run_fn c (run_with oracle k tbl c) fd args | None => ES end
  end.
Proof. reflexivity. Qed.

(* the outcome of the body: the new converter, or the exception class *)
Lemma frag_init_ok k c0 rs d strict : exists env',
  execm_block (fun c' => run_with init_oracle (S k) frag_table c') (fn_body frag___init__)
              ([PList (map PRec rs); PStr d; PBool strict] ++ repeat PNone (fn_nlocals frag___init__)) c0
  = match mk_conv strict d rs with Val c => MNorm env' c | Raise e => MRaise e end.
Proof.
  unfold mk_conv. cbn. rewrite as_recs_map'. cbn.
  set (srs := sort_records rs).
  assert (O1 : forall c', run_with init_oracle (S k) frag_table c' f_oracle_dup_uri_prefixes [PList (map PRec srs)]
                          = EV (PList (map (fun _ => PNone) (dups all_uris srs)))).
  { intro c'. rewrite run_with_S'. unfold init_oracle. rewrite as_recs_map'. reflexivity. }
  assert (O2 : forall c', run_with init_oracle (S k) frag_table c' f_oracle_dup_prefixes [PList (map PRec srs)]
                          = EV (PList (map (fun _ => PNone) (dups all_prefixes srs)))).
  { intro c'. rewrite run_with_S'. unfold init_oracle. rewrite as_recs_map'. reflexivity. }
  assert (O3 : forall c', run_with init_oracle (S k) frag_table c' f_oracle_pattern_map [PList (map PRec srs)]
                          = EV (PDict (sdv (patmap_of srs)))).
  { intro c'. rewrite run_with_S'. unfold init_oracle. rewrite as_recs_map'. reflexivity. }
  assert (T : forall c' f fd, nth_error frag_table f = Some fd -> init_oracle f [PList (map PRec srs)] = None ->
              run_with init_oracle (S k) frag_table c' f [PList (map PRec srs)] = run_fn c' (run_with init_oracle k frag_table c') fd [PList (map PRec srs)]).
  { intros c' f fd Hn Ho. rewrite run_with_S', Ho, Hn. reflexivity. }
  destruct strict; cbn.
  - rewrite O1. cbn. destruct (dups all_uris srs) as [|x1 l1] eqn:D1; cbn.
    + rewrite O2. cbn. destruct (dups all_prefixes srs) as [|x2 l2] eqn:D2; cbn.
      * rewrite as_recs_map'. cbn.
        rewrite (T _ f__get_prefix_map frag__get_prefix_map) by (try reflexivity; unfold init_oracle; rewrite as_recs_map'; reflexivity).
        rewrite frag_get_prefix_map_fn. cbn. rewrite as_sdict_sdv. cbn.
        rewrite (T _ f__get_prefix_synmap frag__get_prefix_synmap) by (try reflexivity; unfold init_oracle; rewrite as_recs_map'; reflexivity).
        rewrite frag_get_prefix_synmap_fn. cbn. rewrite as_sdict_sdv. cbn.
        rewrite (T _ f__get_reverse_prefix_map frag__get_reverse_prefix_map) by (try reflexivity; unfold init_oracle; rewrite as_recs_map'; reflexivity).
        rewrite frag_get_reverse_prefix_map_fn. cbn. rewrite as_sdict_sdv. cbn.
        fold (sdv (idx_of all_uris r_prefix srs)). rewrite as_sdict_sdv. cbn.
        rewrite O3. cbn. rewrite as_sdict_sdv. eexists. reflexivity.
      * exists []. reflexivity.
    + exists []. reflexivity.
  - rewrite as_recs_map'. cbn.
    rewrite (T _ f__get_prefix_map frag__get_prefix_map) by (try reflexivity; unfold init_oracle; rewrite as_recs_map'; reflexivity).
    rewrite frag_get_prefix_map_fn. cbn. rewrite as_sdict_sdv. cbn.
    rewrite (T _ f__get_prefix_synmap frag__get_prefix_synmap) by (try reflexivity; unfold init_oracle; rewrite as_recs_map'; reflexivity).
    rewrite frag_get_prefix_synmap_fn. cbn. rewrite as_sdict_sdv. cbn.
    rewrite (T _ f__get_reverse_prefix_map frag__get_reverse_prefix_map) by (try reflexivity; unfold init_oracle; rewrite as_recs_map'; reflexivity).
    rewrite frag_get_reverse_prefix_map_fn. cbn. rewrite as_sdict_sdv. cbn.
    fold (sdv (idx_of all_uris r_prefix srs)). rewrite as_sdict_sdv. cbn.
    rewrite O3. cbn. rewrite as_sdict_sdv. eexists. reflexivity.
Qed.
Print Assumptions frag_init_ok.

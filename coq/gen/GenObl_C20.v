(* Generated-obligation file for C20: what the translator read from /repo/src/curies/w3c.py on this run
   (gen/Gen.v) is what the theorems of props/C20.v are about (model/W3C.v). *)
From Curies.model Require Import Str Regex W3C.
From Curies.gen Require Gen.
Theorem GenObl_C20_ncname_pattern : Gen.ncname_pat = W3C.ncname_pat.
Proof. reflexivity. Qed.
Print Assumptions GenObl_C20_ncname_pattern.
Theorem GenObl_C20_ncname_method : Gen.ncname_method = W3C.ncname_method.
Proof. reflexivity. Qed.
Print Assumptions GenObl_C20_ncname_method.
Theorem GenObl_C20_luid_pattern : Gen.luid_pat = W3C.luid_pat.
Proof. reflexivity. Qed.
Print Assumptions GenObl_C20_luid_pattern.
Theorem GenObl_C20_luid_method : Gen.luid_method = W3C.luid_method.
Proof. reflexivity. Qed.
Print Assumptions GenObl_C20_luid_method.

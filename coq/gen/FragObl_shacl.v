(* Obligations about the function bodies of the working tree (gen/Gen.v, frag_table, written by translator/frag.py on this run); see
   FragObl_base.v.  This file: _get_shacl_line (the text of one sh:declare entry, with its backslash doubling) is the model's
   shacl_line, for every prefix, namespace and pattern (None, the empty string -- both write no sh:pattern -- or any other string). *)
From Coq Require Import List NArith Bool Arith Lia.
From Curies.model Require Import Str PyData Trie Conv Query PyFrag Writers ShaclText.
From Curies.proofs Require Import StrFacts.
From Curies.gen Require Import Gen.
Import ListNotations.

Lemma run_S' k tbl c f args :
  run (S k) tbl c f args = match nth_error tbl f with Some fd => run_fn c (run k tbl c) fd args | None => ES end.
Proof. reflexivity. Qed.

Definition ppat (pat : option str) : pv := match pat with Some x => PStr x | None => PNone end.

Lemma frag_get_shacl_line_ok k c p u pat :
  run (S k) frag_table c f__get_shacl_line [PStr p; PStr u; ppat pat] = EV (PStr (shacl_line p u pat)).
Proof.
  rewrite run_S'. unfold shacl_line, shacl_line_with, escape_bs, backslash, t_open, t_mid, t_dt, t_pat, t_close, dquote.
  destruct pat as [[|ch x]|]; cbn; repeat (rewrite <- ?app_assoc; cbn); rewrite ?app_nil_r; reflexivity.
Qed.
Print Assumptions frag_get_shacl_line_ok.

(* Obligations about the method bodies of the working tree (gen/Gen.v, frag_table, written by translator/frag.py on this run); see
   FragObl_base.v.  This file: standardize_curie, standardize_uri. *)
From Coq Require Import List NArith Bool Arith Lia.
From Curies.model Require Import Str PyData Trie Conv Query PyFrag.
From Curies.proofs Require Import StrFacts TrieFacts.
From Curies.gen Require Import Gen.
From Curies.gen Require Export FragObl_base.
From Curies.gen Require Export FragObl_curie.
Import ListNotations.
Ltac rw ::= first [ rewrite frag_split_ok | rewrite frag_format_curie_ok | rewrite frag_standardize_prefix_ok
                  | rewrite frag_standardize_identifier_ok | rewrite frag_parse_uri_ok | rewrite frag_parse_uri_legacy | rewrite frag_parse_curie_ok by assumption | rewrite frag_expand_reference_ok | rewrite frag_expand_pair_ok | rewrite frag_expand_ok by assumption | rewrite frag_is_curie_ok by assumption | rewrite frag_expand_strict_ok by assumption ].

Lemma frag_standardize_curie_ok k c s st pt : delim c <> [] ->
  run (S (S (S k))) frag_table c f_standardize_curie [PStr s; PBool st; PBool pt] = inj_str (standardize_curie c s st pt).
Proof.
  intro Hd. step. repeat rw. unfold standardize_curie.
  destruct (parse_curie_nonstrict_val c s) as [r E]. rewrite E. destruct r as [[p i]|]; fin.
Qed.
Print Assumptions frag_standardize_curie_ok.

Lemma frag_standardize_uri_ok k c u st pt :
  run (S (S k)) frag_table c f_standardize_uri [PStr u; PBool st; PBool pt] = inj_str (standardize_uri c u st pt).
Proof. step. repeat rw. unfold standardize_uri, parse_uri. fin. Qed.
Print Assumptions frag_standardize_uri_ok.

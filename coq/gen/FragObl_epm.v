(* Obligations about the function bodies of the working tree (gen/Gen.v, frag_table, written by translator/frag.py on this run); see
   FragObl_base.v.  This file: _record_to_dict (what write_extended_prefix_map writes for one record: the two mandatory keys, the
   synonym lists sorted and only when non-empty, the pattern whenever it is not None -- also the empty pattern) is the model's
   record_to_dict, for every record. *)
From Coq Require Import List NArith Bool Arith Lia.
From Curies.model Require Import Str PyData Trie Conv Query PyFrag Writers.
From Curies.proofs Require Import StrFacts.
From Curies.gen Require Import Gen.
Import ListNotations.

Lemma run_S'' k tbl c f args :
  run (S k) tbl c f args = match nth_error tbl f with Some fd => run_fn c (run k tbl c) fd args | None => ES end.
Proof. reflexivity. Qed.

Definition pjval (v : jval) : pv := match v with JStr s => PStr s | JList l => pstrs l end.
Definition pdict (d : list (str * jval)) : pv := PDict (map (fun kv => (fst kv, pjval (snd kv))) d).

Lemma as_strs_pv_map l : as_strs_pv (map PStr l) = Some l.
Proof. induction l as [|x l IH]; [reflexivity|]. cbn. rewrite IH. reflexivity. Qed.

Lemma frag_record_to_dict_ok k c r : run (S k) frag_table c f__record_to_dict [PRec r] = EV (pdict (record_to_dict r)).
Proof.
  rewrite run_S''. unfold record_to_dict, pdict, k_prefix, k_uri_prefix, k_psyn, k_usyn, k_pattern.
  destruct r as [p u ps us pat]. cbn [r_prefix r_uri r_psyn r_usyn r_pat].
  destruct ps as [|p1 ps], us as [|u1 us], pat as [x|]; cbn; unfold pstrs; repeat (rewrite as_strs_pv_map; cbn); reflexivity.
Qed.
Print Assumptions frag_record_to_dict_ok.

(* Obligations about the function bodies of the working tree (gen/Gen.v, frag_table, written by translator/frag.py on this run); see
   FragObl_base.v.  This file, from curies/w3c.py: is_w3c_prefix, _is_w3c_luid and is_w3c_curie are the model's is_w3c_prefix_g,
   is_w3c_luid_g and is_w3c_curie_g (model/W3C.v; the C20 theorems are about them), for every whitespace predicate, every pair of
   patterns and every string.  Regular-expression matching and str.strip are oracles: <pattern>.fullmatch(s) is read for its
   truthiness and answers run_pattern ... MFullmatch; a call of `.match` is another oracle, which these lemmas know nothing about
   (that the source calls fullmatch is also what gen/GenObl_C20.v checks); strip() removes white space from both ends. *)
From Coq Require Import List NArith Bool Arith Lia.
From Curies.model Require Import Str PyData Trie Conv Query PyFrag Regex W3C.
From Curies.proofs Require Import StrFacts.
From Curies.gen Require Import Gen.
Import ListNotations.

Section W.
Variable sp : chr -> bool.
Variables (pp lp : pattern).

Fixpoint dropwhile (l : str) : str := match l with c :: t => if sp c then dropwhile t else l | [] => [] end.
Definition py_strip (s : str) : str := rev (dropwhile (rev (dropwhile s))).

Definition w3c_oracle (f : nat) (args : list pv) : option eres :=
  if Nat.eqb f f_oracle_strip then match args with [PStr s] => Some (EV (PStr (py_strip s))) | _ => Some ES end
  else if Nat.eqb f (f_oracle_re 0 0) then match args with [PStr s] => Some (EV (PBool (run_pattern sp MFullmatch pp s))) | _ => Some ES end
  else if Nat.eqb f (f_oracle_re 1 0) then match args with [PStr s] => Some (EV (PBool (run_pattern sp MFullmatch lp s))) | _ => Some ES end
  else None.

Lemma run_with_S oracle k tbl c f args :
  run_with oracle (S k) tbl c f args =
  match oracle f args with
  | Some r => r
  | None => match nth_error tbl f with Some fd => run_fn c (run_with oracle k tbl c) fd args | None => ES end
  end.
Proof. reflexivity. Qed.
Lemma run_with_oracle oracle k tbl c f args r : oracle f args = Some r -> run_with oracle k tbl c f args = r.
Proof. intro H. destruct k; cbn [run_with]; unfold run_with; rewrite H; reflexivity. Qed.

Lemma frag_is_w3c_prefix_ok k c s :
  run_with w3c_oracle (S k) frag_table c f_is_w3c_prefix [PStr s] = EV (PBool (is_w3c_prefix_g sp MFullmatch pp s)).
Proof.
  rewrite run_with_S. cbn. erewrite run_with_oracle by reflexivity.
  unfold is_w3c_prefix_g. cbn. rewrite negb_involutive. reflexivity.
Qed.

Lemma frag_is_w3c_luid_ok k c s :
  run_with w3c_oracle (S k) frag_table c f__is_w3c_luid [PStr s] = EV (PBool (is_w3c_luid_g sp MFullmatch lp s)).
Proof.
  rewrite run_with_S. cbn. erewrite run_with_oracle by reflexivity.
  unfold is_w3c_luid_g. cbn. rewrite negb_involutive. reflexivity.
Qed.

(* `c in s` for a one-character needle *)
Lemma contains_char ch s : Str.contains [ch] s = existsb (N.eqb ch) s.
Proof.
  unfold Str.contains. induction s as [|x s IH]; [reflexivity|].
  cbn [partition prefixb existsb]. destruct (N.eqb ch x) eqn:E.
  - cbn. reflexivity.
  - cbn. destruct (partition [ch] s) as [[a b]|]; cbn in *; exact IH.
Qed.
Lemma existsb_or (s : str) : existsb (N.eqb 91) s || existsb (N.eqb 93) s = existsb (fun c => N.eqb c 91 || N.eqb c 93) s.
Proof.
  induction s as [|x s IH]; [reflexivity|]. cbn [existsb]. rewrite <- IH. rewrite (N.eqb_sym 91 x), (N.eqb_sym 93 x).
  destruct (N.eqb x 91), (N.eqb x 93), (existsb (N.eqb 91) s), (existsb (N.eqb 93) s); reflexivity.
Qed.
(* strip() leaves nothing exactly when every character is white space *)
Lemma dropwhile_nil l : dropwhile l = [] <-> forallb sp l = true.
Proof.
  induction l as [|x l IH]; [cbn; tauto|]. cbn. destruct (sp x); cbn; [exact IH|]. split; discriminate.
Qed.
Lemma py_strip_nil s : py_strip s = [] <-> forallb sp s = true.
Proof.
  unfold py_strip. split.
  - intro H. apply (f_equal (@rev chr)) in H. rewrite rev_involutive in H. cbn in H.
    apply dropwhile_nil in H. rewrite forallb_forall in H. apply dropwhile_nil.
    destruct (dropwhile s) as [|y t] eqn:D; [reflexivity|].
    (* a non-empty remainder starts with a non-space character, which is in the reversed list too *)
    exfalso. assert (Hy : sp y = false).
    { clear H. induction s as [|x s IH]; [discriminate|]. cbn in D. destruct (sp x) eqn:Ex; [apply IH; exact D|]. inversion D; subst. exact Ex. }
    specialize (H y). rewrite <- in_rev in H. rewrite H in Hy by (left; reflexivity). discriminate.
  - intro H. apply dropwhile_nil in H. rewrite H. reflexivity.
Qed.

Lemma frag_is_w3c_curie_ok k c s :
  run_with w3c_oracle (S (S k)) frag_table c f_is_w3c_curie [PStr s] = EV (PBool (is_w3c_curie_g sp MFullmatch MFullmatch pp lp s)).
Proof.
  rewrite run_with_S. cbn. rewrite !contains_char. unfold is_w3c_curie_g. rewrite <- existsb_or.
  destruct (existsb (N.eqb 91) s); cbn; [reflexivity|].
  destruct (existsb (N.eqb 93) s); cbn; [reflexivity|].
  erewrite run_with_oracle by reflexivity. cbn.
  destruct (py_strip s) as [|y t] eqn:PS; cbn.
  - apply py_strip_nil in PS. rewrite PS. reflexivity.
  - assert (F : forallb sp s = false).
    { destruct (forallb sp s) eqn:E; [|reflexivity]. apply py_strip_nil in E. congruence. }
    rewrite F. destruct (partition [58%N] s) as [[p i]|]; cbn.
    + destruct p as [|p0 p']; cbn.
      * rewrite frag_is_w3c_luid_ok. reflexivity.
      * rewrite frag_is_w3c_prefix_ok. unfold is_w3c_prefix_g, is_w3c_luid_g. cbn.
        match goal with |- context [if ?b then _ else _] => destruct b end; cbn; [|reflexivity].
        rewrite frag_is_w3c_luid_ok. reflexivity.
    + rewrite frag_is_w3c_luid_ok. reflexivity.
Qed.
End W.
Print Assumptions frag_is_w3c_prefix_ok.
Print Assumptions frag_is_w3c_luid_ok.
Print Assumptions frag_is_w3c_curie_ok.

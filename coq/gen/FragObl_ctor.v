(* Obligations about the function bodies of the working tree (gen/Gen.v, frag_table, written by translator/frag.py on this run); see
   FragObl_base.v.  This file: the three index builders of Converter.__init__ -- _get_prefix_map, _get_prefix_synmap,
   _get_reverse_prefix_map (two nested loops writing every name of every record into one insertion-ordered dictionary, later writes
   overwriting earlier ones in place) -- are the model's idx_of, for every list of records: what mk_conv puts into pmap, synmap and
   rpmap is what the constructor of the working tree computes. *)
From Coq Require Import List NArith Bool Arith Lia.
From Curies.model Require Import Str PyData Trie Conv Query PyFrag.
From Curies.proofs Require Import StrFacts.
From Curies.gen Require Import Gen.
Import ListNotations.

Lemma run_S5 k tbl c f args :
  run (S k) tbl c f args = match nth_error tbl f with Some fd => run_fn c (run k tbl c) fd args | None => ES end.
Proof. reflexivity. Qed.
Lemma forc_nil step env : for_loop step [] env = ONorm env. Proof. reflexivity. Qed.
Lemma forc_cons step v r env :
  for_loop step (v :: r) env = match step v env with ONorm env' => for_loop step r env' | o => o end.
Proof. reflexivity. Qed.

Definition sdv (m : list (str * str)) : list (str * pv) := map (fun kv => (fst kv, PStr (snd kv))) m.
Lemma sdv_dset k v d : sdv (dset k v d) = dset k (PStr v) (sdv d).
Proof.
  induction d as [|[k' v'] d IH]; [reflexivity|]. cbn [dset sdv map fst snd].
  destruct (str_eqb k k'); [reflexivity|]. cbn [map fst snd]. f_equal. exact IH.
Qed.

(* the shape shared by the three functions: rv[canonical] = value; for s in synonyms: rv[s] = value *)
Section Builder.
Variables (keysf : record -> list str) (valf : record -> str).
Variable outer : pv -> list pv -> out.
Hypothesis outer_step : forall r d rs0 x2 x3, exists y3,
  outer (PRec r) [rs0; PDict (sdv d); x2; x3] = ONorm [rs0; PDict (sdv (idx_rec keysf valf d r)); PRec r; y3].

Lemma builder_loop : forall rs d rs0 x2 x3, exists y2 y3,
  for_loop outer (map PRec rs) [rs0; PDict (sdv d); x2; x3] =
  ONorm [rs0; PDict (sdv (fold_left (idx_rec keysf valf) rs d)); y2; y3].
Proof.
  induction rs as [|r rs IH]; intros d rs0 x2 x3.
  - exists x2, x3. reflexivity.
  - cbn [map fold_left]. rewrite forc_cons. destruct (outer_step r d rs0 x2 x3) as [y3 E]. rewrite E. apply IH.
Qed.
End Builder.

Lemma frag_get_prefix_map_fn call c rs :
  run_fn c call frag__get_prefix_map [PList (map PRec rs)] = EV (PDict (sdv (idx_of all_prefixes r_uri rs))).
Proof.
  unfold run_fn. cbn.
  match goal with |- context [for_loop ?f] => set (outer := f) end.
  assert (OS : forall r d rs0 x2 x3, exists y3,
             outer (PRec r) [rs0; PDict (sdv d); x2; x3] = ONorm [rs0; PDict (sdv (idx_rec all_prefixes r_uri d r)); PRec r; y3]).
  { intros r d rs0 x2 x3. unfold outer. cbn. rewrite <- sdv_dset.
    match goal with |- context [for_loop ?f] => set (inner := f) end.
    assert (L : forall ps d' x, exists y,
               for_loop inner (map PStr ps) [rs0; PDict (sdv d'); PRec r; x] =
               ONorm [rs0; PDict (sdv (fold_left (fun d0 k0 => dset k0 (r_uri r) d0) ps d')); PRec r; y]).
    { induction ps as [|p ps IHp]; intros d' x.
      - exists x. reflexivity.
      - cbn [map fold_left]. rewrite forc_cons. unfold inner at 1. cbn. rewrite <- sdv_dset. apply IHp. }
    unfold pstrs, idx_rec, all_prefixes. cbn [fold_left].
    match goal with |- context [for_loop inner (map PStr ?ps) [_; PDict (sdv ?d1); _; ?x]] => destruct (L ps d1 x) as [y E] end.
    exists y. rewrite E. reflexivity. }
  destruct (builder_loop all_prefixes r_uri outer OS rs [] (PList (map PRec rs)) PNone PNone) as [y2 [y3 E]].
  change (sdv []) with (@nil (str * pv)) in E. rewrite E. reflexivity.
Qed.
Lemma frag_get_prefix_map_ok k c rs :
  run (S k) frag_table c f__get_prefix_map [PList (map PRec rs)] = EV (PDict (sdv (idx_of all_prefixes r_uri rs))).
Proof. rewrite run_S5. change (nth_error frag_table f__get_prefix_map) with (Some frag__get_prefix_map). apply frag_get_prefix_map_fn. Qed.
Print Assumptions frag_get_prefix_map_ok.

Lemma frag_get_prefix_synmap_fn call c rs :
  run_fn c call frag__get_prefix_synmap [PList (map PRec rs)] = EV (PDict (sdv (idx_of all_prefixes r_prefix rs))).
Proof.
  unfold run_fn. cbn.
  match goal with |- context [for_loop ?f] => set (outer := f) end.
  assert (OS : forall r d rs0 x2 x3, exists y3,
             outer (PRec r) [rs0; PDict (sdv d); x2; x3] = ONorm [rs0; PDict (sdv (idx_rec all_prefixes r_prefix d r)); PRec r; y3]).
  { intros r d rs0 x2 x3. unfold outer. cbn. rewrite <- sdv_dset.
    match goal with |- context [for_loop ?f] => set (inner := f) end.
    assert (L : forall ps d' x, exists y,
               for_loop inner (map PStr ps) [rs0; PDict (sdv d'); PRec r; x] =
               ONorm [rs0; PDict (sdv (fold_left (fun d0 k0 => dset k0 (r_prefix r) d0) ps d')); PRec r; y]).
    { induction ps as [|p ps IHp]; intros d' x.
      - exists x. reflexivity.
      - cbn [map fold_left]. rewrite forc_cons. unfold inner at 1. cbn. rewrite <- sdv_dset. apply IHp. }
    unfold pstrs, idx_rec, all_prefixes. cbn [fold_left].
    match goal with |- context [for_loop inner (map PStr ?ps) [_; PDict (sdv ?d1); _; ?x]] => destruct (L ps d1 x) as [y E] end.
    exists y. rewrite E. reflexivity. }
  destruct (builder_loop all_prefixes r_prefix outer OS rs [] (PList (map PRec rs)) PNone PNone) as [y2 [y3 E]].
  change (sdv []) with (@nil (str * pv)) in E. rewrite E. reflexivity.
Qed.
Lemma frag_get_prefix_synmap_ok k c rs :
  run (S k) frag_table c f__get_prefix_synmap [PList (map PRec rs)] = EV (PDict (sdv (idx_of all_prefixes r_prefix rs))).
Proof. rewrite run_S5. change (nth_error frag_table f__get_prefix_synmap) with (Some frag__get_prefix_synmap). apply frag_get_prefix_synmap_fn. Qed.
Print Assumptions frag_get_prefix_synmap_ok.

Lemma frag_get_reverse_prefix_map_fn call c rs :
  run_fn c call frag__get_reverse_prefix_map [PList (map PRec rs)] = EV (PDict (sdv (idx_of all_uris r_prefix rs))).
Proof.
  unfold run_fn. cbn.
  match goal with |- context [for_loop ?f] => set (outer := f) end.
  assert (OS : forall r d rs0 x2 x3, exists y3,
             outer (PRec r) [rs0; PDict (sdv d); x2; x3] = ONorm [rs0; PDict (sdv (idx_rec all_uris r_prefix d r)); PRec r; y3]).
  { intros r d rs0 x2 x3. unfold outer. cbn. rewrite <- sdv_dset.
    match goal with |- context [for_loop ?f] => set (inner := f) end.
    assert (L : forall ps d' x, exists y,
               for_loop inner (map PStr ps) [rs0; PDict (sdv d'); PRec r; x] =
               ONorm [rs0; PDict (sdv (fold_left (fun d0 k0 => dset k0 (r_prefix r) d0) ps d')); PRec r; y]).
    { induction ps as [|p ps IHp]; intros d' x.
      - exists x. reflexivity.
      - cbn [map fold_left]. rewrite forc_cons. unfold inner at 1. cbn. rewrite <- sdv_dset. apply IHp. }
    unfold pstrs, idx_rec, all_uris. cbn [fold_left].
    match goal with |- context [for_loop inner (map PStr ?ps) [_; PDict (sdv ?d1); _; ?x]] => destruct (L ps d1 x) as [y E] end.
    exists y. rewrite E. reflexivity. }
  destruct (builder_loop all_uris r_prefix outer OS rs [] (PList (map PRec rs)) PNone PNone) as [y2 [y3 E]].
  change (sdv []) with (@nil (str * pv)) in E. rewrite E. reflexivity.
Qed.
Lemma frag_get_reverse_prefix_map_ok k c rs :
  run (S k) frag_table c f__get_reverse_prefix_map [PList (map PRec rs)] = EV (PDict (sdv (idx_of all_uris r_prefix rs))).
Proof. rewrite run_S5. change (nth_error frag_table f__get_reverse_prefix_map) with (Some frag__get_reverse_prefix_map). apply frag_get_reverse_prefix_map_fn. Qed.
Print Assumptions frag_get_reverse_prefix_map_ok.


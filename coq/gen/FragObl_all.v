(* Obligations about the method bodies of the working tree (gen/Gen.v, frag_table, written by translator/frag.py on this run); see
   FragObl_base.v.  This file: get_record, expand_pair_all, expand_all (the two loops of the fragment). *)
From Coq Require Import List NArith Bool Arith Lia.
From Curies.model Require Import Str PyData Trie Conv Query PyFrag.
From Curies.proofs Require Import StrFacts TrieFacts.
From Curies.gen Require Import Gen.
From Curies.gen Require Export FragObl_base.
From Curies.gen Require Export FragObl_curie.
Import ListNotations.
Ltac rw ::= first [ rewrite frag_split_ok | rewrite frag_format_curie_ok | rewrite frag_standardize_prefix_ok
                  | rewrite frag_standardize_identifier_ok | rewrite frag_parse_uri_ok | rewrite frag_parse_uri_legacy | rewrite frag_parse_curie_ok by assumption | rewrite frag_expand_reference_ok | rewrite frag_expand_pair_ok | rewrite frag_expand_ok by assumption | rewrite frag_is_curie_ok by assumption | rewrite frag_expand_strict_ok by assumption ].

Definition get_record_res (c : conv) (p : str) (st : bool) : eres :=
  match get_record c p with Some r => EV (PRec r) | None => if st then EX EKeyError else EV PNone end.

Lemma contains_pstrs p l : contains (PStr p) (map PStr l) = Some (mem p l).
Proof.
  induction l as [|x l IH]; [reflexivity|]. cbn [map contains simple_eq]. rewrite mem_cons.
  rewrite (str_eqb_sym x p). destruct (str_eqb p x); [reflexivity|]. exact IH.
Qed.
Lemma for_loop_nil step env : for_loop step [] env = ONorm env. Proof. reflexivity. Qed.
Lemma for_loop_cons step v r env :
  for_loop step (v :: r) env = match step v env with ONorm env' => for_loop step r env' | o => o end.
Proof. reflexivity. Qed.

(* for record in self.records: if <record matches>: return record  -- is List.find *)
Lemma frag_get_record_ok k c p st : run (S k) frag_table c f_get_record [PStr p; PBool st] = get_record_res c p st.
Proof.
  step. unfold get_record_res, get_record.
  match goal with |- context [for_loop ?f] => set (stp := f) end.
  assert (L : forall rs x, exists y, for_loop stp (map PRec rs) [PStr p; PBool st; x] =
                           match List.find (fun r => str_eqb (r_prefix r) p || mem p (r_psyn r)) rs with
                           | Some r => ORet (PRec r)
                           | None => ONorm [PStr p; PBool st; y] end).
  { induction rs as [|r rs IH]; intro x; [exists x; reflexivity|].
    cbn [map List.find]. rewrite for_loop_cons. unfold stp at 1. cbn. unfold pstrs. rewrite ?contains_pstrs. cbn.
    rewrite ?(str_eqb_sym p (r_prefix r)).
    destruct (str_eqb (r_prefix r) p); cbn; try (exists x; reflexivity).
    destruct (mem p (r_psyn r)); cbn; try (exists x; reflexivity). apply IH. }
  destruct (L (recs c) PNone) as [y E]. rewrite E. destruct (List.find _ (recs c)); fin.
Qed.
Print Assumptions frag_get_record_ok.
Ltac rw ::= first [ rewrite frag_split_ok | rewrite frag_format_curie_ok | rewrite frag_standardize_prefix_ok
                  | rewrite frag_standardize_identifier_ok | rewrite frag_parse_uri_ok | rewrite frag_parse_uri_legacy | rewrite frag_parse_curie_ok by assumption | rewrite frag_expand_reference_ok | rewrite frag_expand_pair_ok | rewrite frag_expand_ok by assumption | rewrite frag_is_curie_ok by assumption | rewrite frag_expand_strict_ok by assumption | rewrite frag_get_record_ok ].

(* rv = [canonical + identifier]; for synonym in record.uri_prefix_synonyms: rv.append(synonym + identifier)  -- is map over all_uris *)
Lemma frag_expand_pair_all_ok k c p i st :
  run (S (S k)) frag_table c f_expand_pair_all [PStr p; PStr i; PBool st] = inj_strs (expand_pair_all c p i st).
Proof.
  step. repeat rw. unfold get_record_res, expand_pair_all.
  destruct (get_record c p) as [r|]; [|fin].
  cbn. match goal with |- context [for_loop ?f] => set (stp := f) end.
  assert (L : forall us acc x, exists y,
             for_loop stp (map PStr us) [PStr p; PStr i; PBool st; PRec r; PList (map PStr acc); x] =
             ONorm [PStr p; PStr i; PBool st; PRec r; PList (map PStr (acc ++ map (fun up => up ++ i) us)); y]).
  { induction us as [|u us IH]; intros acc x.
    - exists x. cbn [map]. rewrite for_loop_nil, app_nil_r. reflexivity.
    - cbn [map]. rewrite for_loop_cons. unfold stp at 1. cbn.
      change (map PStr acc ++ [PStr (u ++ i)]) with (map PStr acc ++ map PStr [u ++ i]). rewrite <- map_app.
      destruct (IH (acc ++ [u ++ i]) (PStr u)) as [y E]. exists y. rewrite E. rewrite <- app_assoc. reflexivity. }
  unfold pstrs. destruct (L (r_usyn r) [r_uri r ++ i] PNone) as [y E].
  cbn [map] in E. rewrite E. fin.
Qed.
Print Assumptions frag_expand_pair_all_ok.
Ltac rw ::= first [ rewrite frag_split_ok | rewrite frag_format_curie_ok | rewrite frag_standardize_prefix_ok
                  | rewrite frag_standardize_identifier_ok | rewrite frag_parse_uri_ok | rewrite frag_parse_uri_legacy | rewrite frag_parse_curie_ok by assumption | rewrite frag_expand_reference_ok | rewrite frag_expand_pair_ok | rewrite frag_expand_ok by assumption | rewrite frag_is_curie_ok by assumption | rewrite frag_expand_strict_ok by assumption | rewrite frag_get_record_ok | rewrite frag_expand_pair_all_ok ].

Lemma frag_expand_all_ok k c s st : delim c <> [] ->
  run (S (S (S k))) frag_table c f_expand_all [PStr s; PBool st] = inj_strs (expand_all c s st).
Proof.
  intro Hd. step. repeat rw. unfold expand_all.
  destruct (parse_curie_nonstrict_val c s) as [r E]. rewrite E. destruct r as [[p i]|]; fin.
Qed.
Print Assumptions frag_expand_all_ok.

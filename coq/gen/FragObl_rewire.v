(* Obligations about the function bodies of the working tree (gen/Gen.v, frag_table, written by translator/frag.py on this run); see
   FragObl_base.v.  This file, from curies/reconciliation.py: _get_curie_preferred_or_synonym and _get_uri_preferred_or_synonym are
   the model's first_hit; the record lists that rewire and remap_uri_prefixes hand to the Converter constructor are the model's
   rewire_records / remap_uri_records (the TransitiveError of remap_uri_prefixes included), for every converter state and every
   mapping.  (`converter = _copy_converter(converter)` is the identity on values; that the caller's records are not written to is
   property C10, checked on the running code.) *)
From Coq Require Import List NArith Bool Arith Lia.
From Curies.model Require Import Str PyData Trie Conv Query PyFrag Reconcile.
From Curies.proofs Require Import StrFacts.
From Curies.gen Require Import Gen.
Import ListNotations.

Lemma run_S4 k tbl c f args :
  run (S k) tbl c f args = match nth_error tbl f with Some fd => run_fn c (run k tbl c) fd args | None => ES end.
Proof. reflexivity. Qed.
Lemma forr_nil step env : for_loop step [] env = ONorm env. Proof. reflexivity. Qed.
Lemma forr_cons step v r env :
  for_loop step (v :: r) env = match step v env with ONorm env' => for_loop step r env' | o => o end.
Proof. reflexivity. Qed.

Definition sd (m : list (str * str)) : list (str * pv) := map (fun kv => (fst kv, PStr (snd kv))) m.
Definition pdict_s (m : list (str * str)) : pv := PDict (sd m).

Lemma dget_sd k m : dget k (sd m) = option_map PStr (dget k m).
Proof. induction m as [|[k' v] m IH]; [reflexivity|]. cbn. destruct (str_eqb k k'); [reflexivity|exact IH]. Qed.
Lemma dhas_sd k m : dhas k (sd m) = dhas k m.
Proof. unfold dhas. rewrite dget_sd. destruct (dget k m); reflexivity. Qed.
Lemma as_sdict_sd m : as_sdict_pv (sd m) = Some m.
Proof. induction m as [|[k v] m IH]; [reflexivity|]. cbn. unfold sd in IH. rewrite IH. reflexivity. Qed.
Lemma as_strs_map l : as_strs_pv (map PStr l) = Some l.
Proof. induction l as [|x l IH]; [reflexivity|]. cbn. rewrite IH. reflexivity. Qed.
Lemma as_recs_map l : as_recs_pv (map PRec l) = Some l.
Proof. induction l as [|x l IH]; [reflexivity|]. cbn. rewrite IH. reflexivity. Qed.
Lemma contains_strs p l : PyFrag.contains (PStr p) (map PStr l) = Some (mem p l).
Proof.
  induction l as [|x l IH]; [reflexivity|]. cbn [map PyFrag.contains simple_eq]. rewrite mem_cons.
  rewrite (str_eqb_sym x p). destruct (str_eqb p x); [reflexivity|]. exact IH.
Qed.
Lemma mem_one x n : mem x [n] = str_eqb x n.
Proof.
  rewrite mem_cons. destruct (str_eqb x n); [reflexivity|]. cbn.
  destruct (mem x []) eqn:E; [|reflexivity]. apply mem_In in E. destruct E.
Qed.
Lemma remove_all_1 l n : remove_all l [n] = diff1 l n.
Proof. unfold remove_all, diff1. apply filter_ext. intro x. rewrite mem_one. reflexivity. Qed.

Definition phit (o : option str) : pv := match o with Some u => PStr u | None => PNone end.

(* the two helpers: the canonical name first, then the synonyms in order, the first one that is a key of the mapping decides *)
Lemma first_hit_loop (keys : list str) m (stp : pv -> list pv -> out) (r : record) :
  (forall s x, stp (PStr s) [PRec r; pdict_s m; x] =
               if dhas s m then ORet (phit (dget s m)) else ONorm [PRec r; pdict_s m; PStr s]) ->
  forall x, exists y, for_loop stp (map PStr keys) [PRec r; pdict_s m; x] =
            match List.find (fun k => dhas k m) keys with Some k' => ORet (phit (dget k' m)) | None => ONorm [PRec r; pdict_s m; y] end.
Proof.
  intro H. induction keys as [|s keys IH]; intro x; [exists x; reflexivity|].
  cbn [map List.find]. rewrite forr_cons, H. destruct (dhas s m); [exists x; reflexivity|]. apply IH.
Qed.

Lemma frag_curie_hit_ok k c r m :
  run (S k) frag_table c f__get_curie_preferred_or_synonym [PRec r; pdict_s m] = EV (phit (first_hit (all_prefixes r) m)).
Proof.
  rewrite run_S4. cbn. unfold first_hit, all_prefixes. cbn [List.find]. rewrite dhas_sd.
  destruct (dhas (r_prefix r) m) eqn:E; cbn.
  - rewrite dget_sd. destruct (dget (r_prefix r) m) eqn:G; cbn; [reflexivity|].
    unfold dhas in E. rewrite G in E. discriminate.
  - match goal with |- context [for_loop ?f] => set (stp := f) end.
    destruct (first_hit_loop (r_psyn r) m stp r) with (x := PNone) as [y L].
    { intros s x. unfold stp. cbn. rewrite dhas_sd. destruct (dhas s m) eqn:E2; cbn; [|reflexivity].
      rewrite dget_sd. destruct (dget s m) eqn:G; cbn; [reflexivity|]. unfold dhas in E2. rewrite G in E2. discriminate. }
    unfold pstrs. fold (sd m). fold (pdict_s m). rewrite L.
    destruct (List.find (fun k0 => dhas k0 m) (r_psyn r)); reflexivity.
Qed.
Print Assumptions frag_curie_hit_ok.

Lemma frag_uri_hit_ok k c r m :
  run (S k) frag_table c f__get_uri_preferred_or_synonym [PRec r; pdict_s m] = EV (phit (first_hit (all_uris r) m)).
Proof.
  rewrite run_S4. cbn. unfold first_hit, all_uris. cbn [List.find]. rewrite dhas_sd.
  destruct (dhas (r_uri r) m) eqn:E; cbn.
  - rewrite dget_sd. destruct (dget (r_uri r) m) eqn:G; cbn; [reflexivity|].
    unfold dhas in E. rewrite G in E. discriminate.
  - match goal with |- context [for_loop ?f] => set (stp := f) end.
    destruct (first_hit_loop (r_usyn r) m stp r) with (x := PNone) as [y L].
    { intros s x. unfold stp. cbn. rewrite dhas_sd. destruct (dhas s m) eqn:E2; cbn; [|reflexivity].
      rewrite dget_sd. destruct (dget s m) eqn:G; cbn; [reflexivity|]. unfold dhas in E2. rewrite G in E2. discriminate. }
    unfold pstrs. fold (sd m). fold (pdict_s m). rewrite L.
    destruct (List.find (fun k0 => dhas k0 m) (r_usyn r)); reflexivity.
Qed.
Print Assumptions frag_uri_hit_ok.

(* what both loops do to one record, given the new URI prefix the mapping names for it *)
Definition repointed (c : conv) (skip_same : bool) (keysf : record -> list str) (m : list (str * str)) (r : record) : record :=
  match first_hit (keysf r) m with Some n => repoint c r n skip_same | None => r end.

(* one record of either loop: `tail` is what the interpreter does after the record has (or has not) been re-pointed *)
Ltac close_with IH acc r' x2' x3' :=
  change (map PRec acc ++ [PRec r']) with (map PRec acc ++ map PRec [r']); rewrite <- map_app;
  let y2 := fresh "y2" in let y3 := fresh "y3" in let E := fresh "E" in
  destruct (IH (acc ++ [r']) x2' x3') as [y2 [y3 E]]; exists y2, y3; rewrite E, <- app_assoc; reflexivity.

Lemma frag_rewire_ok k c m :
  run (S (S k)) frag_table c f_rewire [pdict_s m] = EV (PNewConv (rewire_records c m)).
Proof.
  rewrite run_S4. cbn. unfold rewire_records. fold (repointed c true all_prefixes m).
  remember (repointed c true all_prefixes m) as F eqn:HF.
  match goal with |- context [for_loop ?f] => set (stp := f) end.
  assert (L : forall rs acc x2 x3, exists y2 y3,
             for_loop stp (map PRec rs) [pdict_s m; PList (map PRec acc); x2; x3] =
             ONorm [pdict_s m; PList (map PRec (acc ++ map F rs)); y2; y3]).
  { induction rs as [|r rs IH]; intros acc x2 x3.
    - exists x2, x3. cbn [map]. rewrite forr_nil, app_nil_r. reflexivity.
    - assert (HFr : F r = match first_hit (all_prefixes r) m with Some n => repoint c r n true | None => r end) by (rewrite HF; reflexivity).
      cbn [map]. rewrite forr_cons. unfold stp at 1. cbn. fold (sd m). fold (pdict_s m).
      rewrite frag_curie_hit_ok. cbn. rewrite HFr.
      destruct (first_hit (all_prefixes r) m) as [n|]; cbn.
      + unfold repoint. cbn [andb]. destruct (str_eqb n (r_uri r)); cbn.
        * close_with IH acc r (PRec r) (PStr n).
        * unfold pstrs. rewrite contains_strs. cbn.
          destruct (dhas n (rpmap c)); cbn.
          -- destruct (mem n (r_usyn r)); cbn.
             ++ rewrite as_strs_map. cbn. rewrite as_strs_map. cbn. rewrite remove_all_1.
                match goal with |- context [PRec ?r' :: nil] => close_with IH acc r' (PRec r') (PStr n) end.
             ++ close_with IH acc r (PRec r) (PStr n).
          -- rewrite as_strs_map. cbn. rewrite as_strs_map. cbn. rewrite remove_all_1.
             match goal with |- context [PRec ?r' :: nil] => close_with IH acc r' (PRec r') (PStr n) end.
      + close_with IH acc r (PRec r) PNone. }
  destruct (L (recs c) [] PNone PNone) as [y2 [y3 E]]. cbn [map app] in E. rewrite E. cbn. rewrite as_recs_map. reflexivity.
Qed.
Print Assumptions frag_rewire_ok.

Definition remap_uri_res (c : conv) (m : list (str * str)) : eres :=
  match remap_uri_records c m with Val rs => EV (PNewConv rs) | Raise e => EX e end.

Lemma frag_remap_uri_prefixes_ok k c m :
  run (S (S k)) frag_table c f_remap_uri_prefixes [pdict_s m] = remap_uri_res c m.
Proof.
  rewrite run_S4. cbn. fold (sd m). rewrite as_sdict_sd. cbn. unfold remap_uri_res, remap_uri_records.
  unfold pstrs. destruct (inter (map fst m) (map snd m)) as [|i0 il]; cbn; [|reflexivity].
  fold (repointed c false all_uris m).
  remember (repointed c false all_uris m) as F eqn:HF.
  match goal with |- context [for_loop ?f] => set (stp := f) end.
  assert (L : forall rs acc x3 x4, exists y3 y4,
             for_loop stp (map PRec rs) [pdict_s m; PList []; PList (map PRec acc); x3; x4] =
             ONorm [pdict_s m; PList []; PList (map PRec (acc ++ map F rs)); y3; y4]).
  { induction rs as [|r rs IH]; intros acc x3 x4.
    - exists x3, x4. cbn [map]. rewrite forr_nil, app_nil_r. reflexivity.
    - assert (HFr : F r = match first_hit (all_uris r) m with Some n => repoint c r n false | None => r end) by (rewrite HF; reflexivity).
      cbn [map]. rewrite forr_cons. unfold stp at 1. cbn. fold (sd m). fold (pdict_s m).
      rewrite frag_uri_hit_ok. cbn. rewrite HFr.
      destruct (first_hit (all_uris r) m) as [n|]; cbn.
      + unfold repoint. cbn [andb]. unfold pstrs. rewrite contains_strs. cbn.
        destruct (dhas n (rpmap c)); cbn.
        * destruct (mem n (r_usyn r)); cbn.
          -- rewrite as_strs_map. cbn. rewrite as_strs_map. cbn. rewrite remove_all_1.
             match goal with |- context [PRec ?r' :: nil] => close_with IH acc r' (PRec r') (PStr n) end.
          -- close_with IH acc r (PRec r) (PStr n).
        * rewrite as_strs_map. cbn. rewrite as_strs_map. cbn. rewrite remove_all_1.
          match goal with |- context [PRec ?r' :: nil] => close_with IH acc r' (PRec r') (PStr n) end.
      + close_with IH acc r (PRec r) PNone. }
  destruct (L (recs c) [] PNone PNone) as [y3 [y4 E]]. cbn [map app] in E. rewrite E. cbn. rewrite as_recs_map. subst F. reflexivity.
Qed.
Print Assumptions frag_remap_uri_prefixes_ok.

(* Generated-obligation file for C02: signature defaults read from the working tree on this run. *)
From Curies.model Require Import Str.
From Curies.model Require Defaults.
From Curies.gen Require Gen.
(* the documented defaults of the signatures C02 speaks about are the defaults in the working tree *)
Theorem GenObl_C02_defaults : Defaults.defaults_hold Defaults.defaults_C02 Gen.defaults_C02 = true.
Proof. vm_compute. reflexivity. Qed.
Print Assumptions GenObl_C02_defaults.

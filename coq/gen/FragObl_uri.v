(* Obligations about the method bodies of the working tree (gen/Gen.v, frag_table, written by translator/frag.py on this run); see
   FragObl_base.v.  This file: compress, is_uri, compress_strict. *)
From Coq Require Import List NArith Bool Arith Lia.
From Curies.model Require Import Str PyData Trie Conv Query PyFrag.
From Curies.proofs Require Import StrFacts TrieFacts.
From Curies.gen Require Import Gen.
From Curies.gen Require Export FragObl_base.
Import ListNotations.
Ltac rw ::= first [ rewrite frag_split_ok | rewrite frag_format_curie_ok | rewrite frag_standardize_prefix_ok
                  | rewrite frag_standardize_identifier_ok | rewrite frag_parse_uri_ok | rewrite frag_parse_uri_legacy ].

Lemma frag_compress_ok k c u st pt :
  run (S (S k)) frag_table c f_compress [PStr u; PBool st; PBool pt] = inj_str (compress c u st pt).
Proof. step. unfold compress, fail_mode. rw. unfold parse_uri. fin. Qed.
Print Assumptions frag_compress_ok.
Ltac rw ::= first [ rewrite frag_split_ok | rewrite frag_format_curie_ok | rewrite frag_standardize_prefix_ok
                  | rewrite frag_standardize_identifier_ok | rewrite frag_parse_uri_ok | rewrite frag_parse_uri_legacy | rewrite frag_compress_ok ].

Lemma compress_nonstrict_val c s : exists r, compress c s false false = Val r.
Proof. unfold compress, fail_mode. destruct (parse_uri_core c s) as [[p i]|]; eexists; reflexivity. Qed.

Lemma frag_is_uri_ok k c s : run (S (S (S k))) frag_table c f_is_uri [PStr s] = inj_bool (is_uri c s).
Proof. step. unfold is_uri. rw. destruct (compress_nonstrict_val c s) as [r E]. rewrite E. destruct r; fin. Qed.
Print Assumptions frag_is_uri_ok.

Lemma frag_compress_strict_ok k c u : run (S (S (S k))) frag_table c f_compress_strict [PStr u] = inj_str (compress_strict c u).
Proof. step. unfold compress_strict. fin. Qed.
Print Assumptions frag_compress_strict_ok.
Ltac rw ::= first [ rewrite frag_split_ok | rewrite frag_format_curie_ok | rewrite frag_standardize_prefix_ok
                  | rewrite frag_standardize_identifier_ok | rewrite frag_parse_uri_ok | rewrite frag_parse_uri_legacy | rewrite frag_compress_ok | rewrite frag_is_uri_ok | rewrite frag_compress_strict_ok ].

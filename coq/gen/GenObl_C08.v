(* Generated-obligation file for C08: signature defaults read from the working tree on this run. *)
From Curies.model Require Import Str.
From Curies.model Require Defaults.
From Curies.gen Require Gen.
(* the documented defaults of the signatures C08 speaks about are the defaults in the working tree *)
Theorem GenObl_C08_defaults : Defaults.defaults_hold Defaults.defaults_C08 Gen.defaults_C08 = true.
Proof. vm_compute. reflexivity. Qed.
Print Assumptions GenObl_C08_defaults.

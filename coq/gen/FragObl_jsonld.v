(* Obligations about the function bodies of the working tree (gen/Gen.v, frag_table, written by translator/frag.py on this run); see
   FragObl_base.v.  This file: _get_expanded_term and _get_jsonld_context (the two nested loops writing the canonical prefix and,
   when asked, every CURIE-prefix synonym of every record into one insertion-ordered dictionary, later writes overwriting earlier
   ones in place) are the model's jsonld_context, for every converter state and both flags. *)
From Coq Require Import List NArith Bool Arith Lia.
From Curies.model Require Import Str PyData Trie Conv Query PyFrag Loaders Writers.
From Curies.proofs Require Import StrFacts.
From Curies.gen Require Import Gen.
Import ListNotations.

Lemma run_S3 k tbl c f args :
  run (S k) tbl c f args = match nth_error tbl f with Some fd => run_fn c (run k tbl c) fd args | None => ES end.
Proof. reflexivity. Qed.
Lemma for_nil step env : for_loop step [] env = ONorm env. Proof. reflexivity. Qed.
Lemma for_cons step v r env :
  for_loop step (v :: r) env = match step v env with ONorm env' => for_loop step r env' | o => o end.
Proof. reflexivity. Qed.

Definition k_at_prefix : str := [64; 112; 114; 101; 102; 105; 120]%N.
Definition k_at_id : str := [64; 105; 100]%N.
Definition k_at_context : str := [64; 99; 111; 110; 116; 101; 120; 116]%N.
Definition pterm (t : term) : pv :=
  match t with
  | TStr u => PStr u
  | TPrefix u => PDict [(k_at_prefix, PBool true); (k_at_id, PStr u)]
  | TOther => PNone
  end.
Definition pctx (d : list (str * term)) : list (str * pv) := map (fun kv => (fst kv, pterm (snd kv))) d.

Lemma pctx_dset k t d : pctx (dset k t d) = dset k (pterm t) (pctx d).
Proof.
  induction d as [|[k' v'] d IH]; [reflexivity|]. cbn [dset pctx map fst snd].
  destruct (str_eqb k k'); [reflexivity|]. cbn [map fst snd]. f_equal. exact IH.
Qed.

Definition term_of (ex : bool) (r : record) : term := if ex then TPrefix (r_uri r) else TStr (r_uri r).

Lemma frag_get_expanded_term_ok k c r ex :
  run (S k) frag_table c f__get_expanded_term [PRec r; PBool ex] = EV (pterm (term_of ex r)).
Proof. rewrite run_S3. destruct ex; reflexivity. Qed.
Print Assumptions frag_get_expanded_term_ok.

Lemma frag_get_jsonld_context_ok k c ex syn :
  run (S (S k)) frag_table c f__get_jsonld_context [PBool ex; PBool syn] =
  EV (PDict [(k_at_context, PDict (pctx (jsonld_context (recs c) ex syn)))]).
Proof.
  rewrite run_S3. cbn. unfold jsonld_context.
  match goal with |- context [for_loop ?f] => set (outer := f) end.
  assert (LO : forall rs d x3 x4 x5, exists y3 y4 y5,
             for_loop outer (map PRec rs) [PBool ex; PBool syn; PDict (pctx d); x3; x4; x5] =
             ONorm [PBool ex; PBool syn;
                    PDict (pctx (fold_left (fun ctx r =>
                                   let t := if ex then TPrefix (r_uri r) else TStr (r_uri r) in
                                   fold_left (fun ctx p => dset p t ctx) (r_prefix r :: (if syn then r_psyn r else [])) ctx) rs d));
                    y3; y4; y5]).
  { induction rs as [|r rs IH]; intros d x3 x4 x5.
    - exists x3, x4, x5. reflexivity.
    - cbn [map fold_left]. rewrite for_cons. unfold outer at 1. cbn.
      rewrite frag_get_expanded_term_ok. cbn. rewrite <- pctx_dset.
      destruct syn; cbn.
      + match goal with |- context [for_loop ?f (map PStr (r_psyn r))] => set (inner := f) end.
        assert (L : forall ps d' x, exists y,
                   for_loop inner (map PStr ps) [PBool ex; PBool true; PDict (pctx d'); PRec r; pterm (term_of ex r); x] =
                   ONorm [PBool ex; PBool true; PDict (pctx (fold_left (fun ctx p => dset p (term_of ex r) ctx) ps d')); PRec r; pterm (term_of ex r); y]).
        { induction ps as [|p ps IHp]; intros d' x.
          - exists x. reflexivity.
          - cbn [map fold_left]. rewrite for_cons. unfold inner at 1. cbn. rewrite <- pctx_dset. apply IHp. }
        unfold pstrs. destruct (L (r_psyn r) (dset (r_prefix r) (term_of ex r) d) x5) as [y E]. rewrite E.
        unfold term_of. apply IH.
      + unfold term_of. apply IH. }
  destruct (LO (recs c) [] PNone PNone PNone) as [y3 [y4 [y5 E]]].
  change (pctx []) with (@nil (str * pv)) in E. rewrite E. cbn. reflexivity.
Qed.
Print Assumptions frag_get_jsonld_context_ok.

(* Generated-obligation file for C18: the content-type tables read from mapping_service/utils.py on this run. *)
From Curies.model Require Import Str Mapping.
From Curies.gen Require Gen.
Theorem GenObl_C18_default : Gen.default_content_type = Mapping.default_content_type.
Proof. reflexivity. Qed.
Print Assumptions GenObl_C18_default.
Theorem GenObl_C18_supported : Gen.supported_content_types = Mapping.supported_content_types.
Proof. reflexivity. Qed.
Print Assumptions GenObl_C18_supported.
Theorem GenObl_C18_synonyms : Gen.content_type_synonyms = Mapping.content_type_synonyms.
Proof. reflexivity. Qed.
Print Assumptions GenObl_C18_synonyms.

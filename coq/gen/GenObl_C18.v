(* Generated-obligation file for C18: the content-type tables read from mapping_service/utils.py on this run. *)
From Curies.model Require Import Str Optimize Mapping.
From Curies.model Require Defaults.
From Curies.gen Require Gen.
Theorem GenObl_C18_default : Gen.default_content_type = Mapping.default_content_type.
Proof. reflexivity. Qed.
Print Assumptions GenObl_C18_default.
Theorem GenObl_C18_supported : Gen.supported_content_types = Mapping.supported_content_types.
Proof. reflexivity. Qed.
Print Assumptions GenObl_C18_supported.
Theorem GenObl_C18_synonyms : Gen.content_type_synonyms = Mapping.content_type_synonyms.
Proof. reflexivity. Qed.
Print Assumptions GenObl_C18_synonyms.
(* rdflib_custom._optimize_node: the node that is rewritten, the operand that is moved to the front, the two operand keys *)
Theorem GenObl_C18_optimize : Gen.opt_join_name = Optimize.join_name /\ Gen.opt_multiset_name = Optimize.multiset_name /\
  Gen.opt_operand_keys = (Optimize.k_p1, Optimize.k_p2).
Proof. repeat split; reflexivity. Qed.
Print Assumptions GenObl_C18_optimize.
(* the documented defaults of the signatures C18 speaks about are the defaults in the working tree *)
Theorem GenObl_C18_defaults : Defaults.defaults_hold Defaults.defaults_C18 Gen.defaults_C18 = true.
Proof. vm_compute. reflexivity. Qed.
Print Assumptions GenObl_C18_defaults.

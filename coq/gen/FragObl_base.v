(* Obligations about the method bodies of the working tree (gen/Gen.v, frag_table, written by translator/frag.py on this run):
   for every converter state, every argument and every sufficient fuel, interpreting the translated source (model/PyFrag.v) gives
   exactly the hand-written model function of model/Query.v.  The scripts evaluate the interpreter on the translated term and split
   on the semantic cases (what the dictionaries, the trie and the callees answer, the flags), so that they do not depend on the
   order in which the source tests its flags or on how it names its locals.
   This file: _split, format_curie, standardize_prefix, standardize_identifier, parse_uri. *)
From Coq Require Import List NArith Bool Arith Lia.
From Curies.model Require Import Str PyData Trie Conv Query PyFrag.
From Curies.proofs Require Import StrFacts TrieFacts.
From Curies.gen Require Import Gen.
Import ListNotations.

Lemma run_S k tbl c f args :
  run (S k) tbl c f args = match nth_error tbl f with Some fd => run_fn c (run k tbl c) fd args | None => ES end.
Proof. reflexivity. Qed.

Ltac step := rewrite run_S; cbn.
(* the calls that are left in a goal are rewritten with the lemmas proved so far (extended file by file) *)
Ltac rw := fail.
(* one semantic case split: a dictionary / partition / trie / record lookup, a callee's result, a flag *)
Ltac split1 :=
  match goal with
  | |- context [dget ?k ?d] => destruct (dget k d) eqn:?
  | |- context [partition ?a ?b] => destruct (partition a b) as [[? ?]|] eqn:?
  | |- context [parse_uri_core ?c ?u] => destruct (parse_uri_core c u) as [[? ?]|] eqn:?
  | |- context [get_record ?c ?p] => destruct (get_record c p) eqn:?
  | |- context [inj ?f ?r] => destruct r as [[?|]|?] eqn:?
  | b : bool |- _ => match goal with |- context [b] => destruct b end
  end.
Ltac open_defs := unfold inj_str, inj_ref, inj_strs, inj_bool, pref, standardize_prefix, fail_mode in *; cbn [fst snd].
Ltac fin :=
  cbn; open_defs;
  repeat (first [ progress rw | reflexivity | congruence | split1 ]; cbn; open_defs);
  try reflexivity.

Definition split_res (sep s : str) : eres :=
  match sep with
  | [] => EX EValueError
  | _ => match split_curie sep s with Val r => EV (pref r) | Raise e => EX e end
  end.

Lemma frag_split_ok k c s sep : run (S k) frag_table c f__split [PStr s; PStr sep] = split_res sep s.
Proof. step. unfold split_res, split_curie. destruct sep as [|d ds]; fin. Qed.
Print Assumptions frag_split_ok.

Lemma frag_format_curie_ok k c p i : run (S k) frag_table c f_format_curie [PStr p; PStr i] = EV (PStr (format_curie c p i)).
Proof. step. unfold format_curie. rewrite <- ?app_assoc, ?app_nil_r. fin. Qed.
Print Assumptions frag_format_curie_ok.

Lemma frag_standardize_prefix_ok k c p st pt :
  run (S k) frag_table c f_standardize_prefix [PStr p; PBool st; PBool pt] = inj_str (standardize_prefix c p st pt).
Proof. step. unfold standardize_prefix, fail_mode. fin. Qed.
Print Assumptions frag_standardize_prefix_ok.

Lemma frag_standardize_identifier_ok k c p i : run (S k) frag_table c f_standardize_identifier [PStr p; PStr i] = EV (PStr i).
Proof. step. fin. Qed.
Print Assumptions frag_standardize_identifier_ok.

Lemma lpi_le (c : conv) u n p : lpi u (ctrie c) = Some (n, p) -> n <= length u.
Proof. intro H. pose proof (lpi_spec _ (ctrie c) u) as S. rewrite H in S. apply S. Qed.

Lemma frag_parse_uri_ok k c u st :
  run (S k) frag_table c f_parse_uri [PStr u; PBool st; PBool true] = inj_ref (parse_uri c u st).
Proof.
  step. unfold parse_uri, parse_uri_core.
  destruct (lpi u (ctrie c)) as [[n p]|] eqn:E; cbn; rewrite ?firstn_length_le by (eapply lpi_le; exact E); fin.
Qed.
Print Assumptions frag_parse_uri_ok.
(* the legacy answer without return_none *)
Lemma frag_parse_uri_legacy k c u :
  run (S k) frag_table c f_parse_uri [PStr u; PBool false; PBool false] =
  match parse_uri_core c u with Some r => EV (pref r) | None => EV (PTup [PNone; PNone]) end.
Proof.
  step. unfold parse_uri_core.
  destruct (lpi u (ctrie c)) as [[n p]|] eqn:E; cbn; rewrite ?firstn_length_le by (eapply lpi_le; exact E); fin.
Qed.
Print Assumptions frag_parse_uri_legacy.

Ltac rw ::= first [ rewrite frag_split_ok | rewrite frag_format_curie_ok | rewrite frag_standardize_prefix_ok
                  | rewrite frag_standardize_identifier_ok | rewrite frag_parse_uri_ok | rewrite frag_parse_uri_legacy ].

(* Obligations about the function bodies of the working tree (gen/Gen.v, frag_table, written by translator/frag.py on this run); see
   FragObl_base.v.  This file, from curies/mapping_service/api.py: MappingServiceGraph._expand_pair_all is the model's `equivalents`
   (parse_uri, expand_pair_all in strict mode, rdflib's validity filter as an oracle), and MappingServiceGraph.triples -- a
   generator, read as the list of what it yields -- is the model's `triples` (model/Mapping.v; the C18_triples theorems are about it),
   for every function standing for _expand_pair_all, every set of configured predicates and every triple pattern. *)
From Coq Require Import List NArith Bool Arith Lia.
From Curies.model Require Import Str PyData Trie Conv Query PyFrag Mapping.
From Curies.proofs Require Import StrFacts.
From Curies.gen Require Import Gen.
From Curies.gen Require Import FragObl_base FragObl_curie FragObl_all.
Import ListNotations.

Lemma fort_nil step env : for_loop step [] env = ONorm env. Proof. reflexivity. Qed.
Lemma fort_cons step v r env :
  for_loop step (v :: r) env = match step v env with ONorm env' => for_loop step r env' | o => o end.
Proof. reflexivity. Qed.
Lemma contains_strs_t p l : PyFrag.contains (PStr p) (map PStr l) = Some (mem p l).
Proof.
  induction l as [|x l IH]; [reflexivity|]. cbn [map PyFrag.contains simple_eq]. rewrite mem_cons.
  rewrite (str_eqb_sym x p). destruct (str_eqb p x); [reflexivity|]. exact IH.
Qed.
Lemma contains_none l : PyFrag.contains PNone (map PStr l) = Some false.
Proof. induction l as [|x l IH]; [reflexivity|]. cbn. exact IH. Qed.

(* ---- _expand_pair_all ---- *)
(* the graph's own environment: its converter's methods through the table, the validity filter as an oracle *)
Definition gcall (k : nat) (c : conv) (valid : str -> bool) : nat -> list pv -> eres :=
  fun f args =>
    if Nat.eqb f f_oracle_is_valid_uri then match args with [PStr u] => EV (PBool (valid u)) | _ => ES end
    else run k frag_table c f args.

Definition graph_equivalents (c : conv) (valid : str -> bool) (u : str) : eres :=
  match parse_uri_core c u with
  | None => EV (PList [])
  | Some (p, i) => match expand_pair_all c p i true with
                   | Val (Some l) => EV (pstrs (filter valid l))
                   | Val None => ES
                   | Raise e => EX e end
  end.

Lemma filter_loop (test : pv -> eres) (valid : str -> bool) l :
  (forall x, test (PStr x) = EV (PBool (valid x))) ->
  filter_by test (map PStr l) = EV (pstrs (filter valid l)).
Proof.
  intro H. induction l as [|x l IH]; [reflexivity|]. cbn [map filter].
  change (filter_by test (PStr x :: map PStr l)) with
    (match test (PStr x) with
     | EV t => match filter_by test (map PStr l) with
               | EV (PList kept) => EV (PList (if truthy t then PStr x :: kept else kept))
               | o => o end
     | o => o end).
  rewrite H, IH. unfold pstrs. cbn [truthy]. destruct (valid x); reflexivity.
Qed.

Lemma expand_pair_all_strict_some c p i : expand_pair_all c p i true <> Val None.
Proof. unfold expand_pair_all. destruct (get_record c p); discriminate. Qed.

Lemma frag_graph_expand_pair_all_ok k c valid u :
  run_fn c (gcall (S (S k)) c valid) frag__expand_pair_all [PStr u] = graph_equivalents c valid u.
Proof.
  unfold run_fn. cbn. rewrite frag_parse_uri_ok. unfold graph_equivalents, parse_uri, inj_ref, inj, pref.
  destruct (parse_uri_core c u) as [[p i]|]; cbn; [|reflexivity].
  rewrite frag_expand_pair_all_ok. unfold inj_strs, inj.
  pose proof (expand_pair_all_strict_some c p i) as NS.
  destruct (expand_pair_all c p i true) as [[l|]|e]; cbn; try reflexivity; try congruence.
  unfold pstrs at 1. rewrite (filter_loop _ valid l); [reflexivity|].
  intro x. reflexivity.
Qed.
Print Assumptions frag_graph_expand_pair_all_ok.

(* with the model's own validity filter this is Mapping.equivalents *)
Lemma graph_equivalents_model c inv u l :
  equivalents inv c u = l ->
  (forall p i, parse_uri_core c u = Some (p, i) -> exists x, expand_pair_all c p i true = Val (Some x)) ->
  graph_equivalents c (valid_uri inv) u = EV (pstrs l).
Proof.
  unfold equivalents, graph_equivalents. intros E H. destruct (parse_uri_core c u) as [[p i]|].
  - destruct (H p i eq_refl) as [x Hx]. rewrite Hx in *. subst l. reflexivity.
  - subst l. reflexivity.
Qed.

(* ---- triples ---- *)
Definition po (o : option str) : pv := match o with Some s => PStr s | None => PNone end.
Definition ptriple (t : triple) : pv := match t with (a, b, c) => PTup [PStr a; PStr b; PStr c] end.

Section Triples.
Variable c : conv.
Variable call : nat -> list pv -> eres.
Variable eqv : str -> list str.
Variable preds : list str.
Hypothesis call_eqv : forall u, call f__expand_pair_all [PStr u] = EV (pstrs (eqv u)).
Hypothesis call_preds : call f_oracle_query_predicates [] = EV (pstrs preds).

Local Transparent mem.

Lemma frag_triples_ok s p o :
  run_fn c call frag_triples [PTup [po s; po p; po o]] = EV (PList (map ptriple (triples eqv preds (s, p, o)))).
Proof.
  unfold run_fn. cbn. rewrite call_preds. unfold pstrs. cbn.
  destruct p as [p|]; cbn [po].
  - rewrite contains_strs_t. cbn. unfold triples, mem. destruct (existsb (str_eqb p) preds); cbn; [|reflexivity].
    destruct s as [sb|], o as [ob|]; cbn; try reflexivity.
    + (* subject bound *)
      rewrite call_eqv. unfold pstrs. cbn.
      match goal with |- context [for_loop ?f] => set (stp := f) end.
      assert (L : forall xs acc x5 x6, exists y6,
                 for_loop stp (map PStr xs) [PTup [PStr sb; PStr p; PNone]; PList (map ptriple acc); PStr sb; PStr p; PNone; x5; x6] =
                 ONorm [PTup [PStr sb; PStr p; PNone]; PList (map ptriple (acc ++ map (fun x => (sb, p, x)) xs)); PStr sb; PStr p; PNone; x5; y6]).
      { induction xs as [|x xs IH]; intros acc x5 x6.
        - exists x6. cbn [map]. rewrite fort_nil, app_nil_r. reflexivity.
        - cbn [map]. rewrite fort_cons. unfold stp at 1. cbn.
          change (map ptriple acc ++ [PTup [PStr sb; PStr p; PStr x]]) with (map ptriple acc ++ map ptriple [(sb, p, x)]).
          rewrite <- map_app. destruct (IH (acc ++ [(sb, p, x)]) x5 (PStr x)) as [y6 E]. exists y6. rewrite E, <- app_assoc. reflexivity. }
      destruct (L (eqv sb) [] PNone PNone) as [y6 E]. cbn [map app] in E. rewrite E. reflexivity.
    + (* object bound *)
      rewrite call_eqv. unfold pstrs. cbn.
      match goal with |- context [for_loop ?f] => set (stp := f) end.
      assert (L : forall xs acc x5 x6, exists y5,
                 for_loop stp (map PStr xs) [PTup [PNone; PStr p; PStr ob]; PList (map ptriple acc); PNone; PStr p; PStr ob; x5; x6] =
                 ONorm [PTup [PNone; PStr p; PStr ob]; PList (map ptriple (acc ++ map (fun x => (x, p, ob)) xs)); PNone; PStr p; PStr ob; y5; x6]).
      { induction xs as [|x xs IH]; intros acc x5 x6.
        - exists x5. cbn [map]. rewrite fort_nil, app_nil_r. reflexivity.
        - cbn [map]. rewrite fort_cons. unfold stp at 1. cbn.
          change (map ptriple acc ++ [PTup [PStr x; PStr p; PStr ob]]) with (map ptriple acc ++ map ptriple [(x, p, ob)]).
          rewrite <- map_app. destruct (IH (acc ++ [(x, p, ob)]) (PStr x) x6) as [y5 E]. exists y5. rewrite E, <- app_assoc. reflexivity. }
      destruct (L (eqv ob) [] PNone PNone) as [y5 E]. cbn [map app] in E. rewrite E. reflexivity.
  - (* a variable predicate: None is in no set of predicates *)
    rewrite contains_none. cbn. destruct s, o; reflexivity.
Qed.
End Triples.
Print Assumptions frag_triples_ok.

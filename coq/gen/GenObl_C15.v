(* Generated-obligation file for C15: signature defaults read from the working tree on this run. *)
From Curies.model Require Import Str.
From Curies.model Require Defaults.
From Curies.gen Require Gen.
(* the documented defaults of the signatures C15 speaks about are the defaults in the working tree *)
Theorem GenObl_C15_defaults : Defaults.defaults_hold Defaults.defaults_C15 Gen.defaults_C15 = true.
Proof. vm_compute. reflexivity. Qed.
Print Assumptions GenObl_C15_defaults.

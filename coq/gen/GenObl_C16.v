(* Generated-obligation file for C16: signature defaults read from the working tree on this run. *)
From Curies.model Require Import Str.
From Curies.model Require Defaults.
From Curies.gen Require Gen.
(* the documented defaults of the signatures C16 speaks about are the defaults in the working tree *)
Theorem GenObl_C16_defaults : Defaults.defaults_hold Defaults.defaults_C16 Gen.defaults_C16 = true.
Proof. vm_compute. reflexivity. Qed.
Print Assumptions GenObl_C16_defaults.

(* Generated-obligation file for C19: the constants of discovery.py read by the translator on this run
   are the ones the model and the theorems use. *)
From Curies.model Require Import Str Discovery.
From Curies.model Require Defaults.
From Curies.gen Require Gen.
Theorem GenObl_C19_default_delimiters : Gen.default_delimiters = Discovery.default_delimiters.
Proof. reflexivity. Qed.
Print Assumptions GenObl_C19_default_delimiters.
(* exactly one special case: startswith "https://github.com" and "issues" in uri (known finding K1) *)
Theorem GenObl_C19_special_case : Gen.special_cases = [(Discovery.github, Discovery.issues)].
Proof. reflexivity. Qed.
Print Assumptions GenObl_C19_special_case.
(* the documented defaults of the signatures C19 speaks about are the defaults in the working tree *)
Theorem GenObl_C19_defaults : Defaults.defaults_hold Defaults.defaults_C19 Gen.defaults_C19 = true.
Proof. vm_compute. reflexivity. Qed.
Print Assumptions GenObl_C19_defaults.

(* Obligations about the function bodies of the working tree (gen/Gen.v, frag_table, written by translator/frag.py on this run); see
   FragObl_base.v.  This file: Converter._merge (what add_record(..., merge=True) does to the record it merges into: every name of
   the new record that the target does not hold yet -- tested against the GROWING list -- is appended, then the list is sorted; the
   same for the URI prefixes; prefix, URI prefix and pattern of the target stay) is the model's `merge`, for every pair of records. *)
From Coq Require Import List NArith Bool Arith Lia.
From Curies.model Require Import Str PyData Trie Conv Query PyFrag Mutate.
From Curies.proofs Require Import StrFacts.
From Curies.gen Require Import Gen.
Import ListNotations.

Lemma forl_nil step env : for_loop step [] env = ONorm env. Proof. reflexivity. Qed.
Lemma forl_cons step v r env :
  for_loop step (v :: r) env = match step v env with ONorm env' => for_loop step r env' | o => o end.
Proof. reflexivity. Qed.
Lemma contains_pstrs' p l : PyFrag.contains (PStr p) (map PStr l) = Some (mem p l).
Proof.
  induction l as [|x l IH]; [reflexivity|]. cbn [map PyFrag.contains simple_eq]. rewrite mem_cons.
  rewrite (str_eqb_sym x p). destruct (str_eqb p x); [reflexivity|]. exact IH.
Qed.

Definition grow (canon : str) (acc : list str) (x : str) : list str := if str_eqb x canon || mem x acc then acc else acc ++ [x].

Lemma frag_merge_ok c call r into : exists y2 y3,
  exec_block c call None (fn_body frag__merge) [PRec r; PRec into; PNone; PNone] = ONorm [PRec r; PRec (merge r into); y2; y3].
Proof.
  cbn [fn_body frag__merge]. cbn.
  match goal with |- context [for_loop ?f (PStr (r_prefix r) :: _)] => set (l1 := f) end.
  assert (L1 : forall news acc us x x3, exists y,
             for_loop l1 (map PStr news)
               [PRec r; PRec {| r_prefix := r_prefix into; r_uri := r_uri into; r_psyn := acc; r_usyn := us; r_pat := r_pat into |}; x; x3] =
             ONorm [PRec r; PRec {| r_prefix := r_prefix into; r_uri := r_uri into;
                                    r_psyn := fold_left (grow (r_prefix into)) news acc; r_usyn := us; r_pat := r_pat into |}; y; x3]).
  { induction news as [|n news IH]; intros acc us x x3.
    - exists x. reflexivity.
    - cbn [map fold_left]. rewrite forl_cons. unfold l1 at 1. cbn. unfold pstrs, all_prefixes. cbn [r_prefix r_psyn].
      rewrite contains_pstrs', (str_eqb_sym (r_prefix into) n). unfold grow at 2.
      destruct (str_eqb n (r_prefix into)); cbn; [apply IH|]. destruct (mem n acc); cbn; apply IH. }
  change (PStr (r_prefix r) :: map PStr (r_psyn r)) with (map PStr (r_prefix r :: r_psyn r)).
  destruct into as [ip iu ips ius ipat]. cbn [r_prefix r_uri r_psyn r_usyn r_pat] in *.
  destruct (L1 (r_prefix r :: r_psyn r) ips ius PNone PNone) as [y2 E1]. cbn [r_prefix r_uri r_psyn r_usyn r_pat] in E1.
  rewrite E1. cbn.
  match goal with |- context [for_loop ?f (PStr (r_uri r) :: _)] => set (l2 := f) end.
  assert (L2 : forall news acc ps x2 x, exists y,
             for_loop l2 (map PStr news)
               [PRec r; PRec {| r_prefix := ip; r_uri := iu; r_psyn := ps; r_usyn := acc; r_pat := ipat |}; x2; x] =
             ONorm [PRec r; PRec {| r_prefix := ip; r_uri := iu; r_psyn := ps;
                                    r_usyn := fold_left (grow iu) news acc; r_pat := ipat |}; x2; y]).
  { induction news as [|n news IH]; intros acc ps x2 x.
    - exists x. reflexivity.
    - cbn [map fold_left]. rewrite forl_cons. unfold l2 at 1. cbn. unfold pstrs, all_uris. cbn [r_uri r_usyn].
      rewrite contains_pstrs', (str_eqb_sym iu n). unfold grow at 2.
      destruct (str_eqb n iu); cbn; [apply IH|]. destruct (mem n acc); cbn; apply IH. }
  change (PStr (r_uri r) :: map PStr (r_usyn r)) with (map PStr (r_uri r :: r_usyn r)).
  match goal with |- context [for_loop l2 _ [PRec r; PRec {| r_prefix := _; r_uri := _; r_psyn := ?ps; r_usyn := _; r_pat := _ |}; ?a; ?b]] =>
    destruct (L2 (r_uri r :: r_usyn r) ius ps a b) as [y3 E2] end.
  rewrite E2. cbn. exists y2, y3. unfold merge, merge_list, all_prefixes, all_uris, grow. cbn [r_prefix r_uri r_psyn r_usyn r_pat]. reflexivity.
Qed.
Print Assumptions frag_merge_ok.

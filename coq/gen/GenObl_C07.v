(* Generated-obligation file for C07: signature defaults read from the working tree on this run. *)
From Curies.model Require Import Str.
From Curies.model Require Defaults.
From Curies.gen Require Gen.
(* the documented defaults of the signatures C07 speaks about are the defaults in the working tree *)
Theorem GenObl_C07_defaults : Defaults.defaults_hold Defaults.defaults_C07 Gen.defaults_C07 = true.
Proof. vm_compute. reflexivity. Qed.
Print Assumptions GenObl_C07_defaults.

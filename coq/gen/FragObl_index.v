(* Obligations about the function bodies of the working tree (gen/Gen.v, frag_table, written by translator/frag.py on this run); see
   FragObl_base.v.  This file: Converter._index -- the only place where the five indexes (prefix_map, synonym_to_prefix,
   reverse_prefix_map, the trie, pattern_map) are written after construction -- is the model's `index`, for every converter state
   and every record: interpreting the translated source with the STATE-CHANGING interpreter (model/PyFrag.v, execm) gives exactly
   the converter the model computes. *)
From Coq Require Import List NArith Bool Arith Lia.
From Curies.model Require Import Str PyData Trie Conv Query PyFrag Mutate.
From Curies.proofs Require Import StrFacts.
From Curies.gen Require Import Gen.
Import ListNotations.

Lemma form_nil step env c : for_loopm step [] env c = MNorm env c. Proof. reflexivity. Qed.
Lemma form_cons step v r env c :
  for_loopm step (v :: r) env c = match step v env c with MNorm env' c' => for_loopm step r env' c' | o => o end.
Proof. reflexivity. Qed.

Lemma conv_eta c : {| delim := delim c; recs := recs c; pmap := pmap c; synmap := synmap c; rpmap := rpmap c; ctrie := ctrie c; patmap := patmap c |} = c.
Proof. destruct c; reflexivity. Qed.

Lemma frag_index_ok k c r : runm k frag_table c f__index [PRec r] = Some (index c r (recs c)).
Proof.
  unfold runm. cbn [nth_error frag_table f__index]. unfold runm_fn. cbn.
  (* first loop: the CURIE-prefix synonyms go into prefix_map and synonym_to_prefix *)
  match goal with |- context [for_loopm ?f (map PStr (r_psyn r))] => set (l1 := f) end.
  assert (L1 : forall ps pm sm x rp tr pt dl rs, exists y,
             for_loopm l1 (map PStr ps) [PRec r; x; PNone]
               {| delim := dl; recs := rs; pmap := pm; synmap := sm; rpmap := rp; ctrie := tr; patmap := pt |} =
             MNorm [PRec r; y; PNone]
               {| delim := dl; recs := rs;
                  pmap := fold_left (fun d p => dset p (r_uri r) d) ps pm;
                  synmap := fold_left (fun d p => dset p (r_prefix r) d) ps sm;
                  rpmap := rp; ctrie := tr; patmap := pt |}).
  { induction ps as [|p ps IH]; intros pm sm x rp tr pt dl rs.
    - exists x. reflexivity.
    - cbn [map fold_left]. rewrite form_cons. unfold l1 at 1. cbn. apply IH. }
  unfold pstrs. destruct (L1 (r_psyn r) (dset (r_prefix r) (r_uri r) (pmap c)) (dset (r_prefix r) (r_prefix r) (synmap c)) PNone
                            (rpmap c) (ctrie c) (patmap c) (delim c) (recs c)) as [y1 E1].
  rewrite E1. cbn. unfold set_trie, set_sdict. cbn.
  (* second loop: the URI-prefix synonyms go into reverse_prefix_map and the trie *)
  match goal with |- context [for_loopm ?f (map PStr (r_usyn r))] => set (l2 := f) end.
  assert (L2 : forall us rp tr x1 x pm sm pt dl rs, exists y,
             for_loopm l2 (map PStr us) [PRec r; x1; x]
               {| delim := dl; recs := rs; pmap := pm; synmap := sm; rpmap := rp; ctrie := tr; patmap := pt |} =
             MNorm [PRec r; x1; y]
               {| delim := dl; recs := rs; pmap := pm; synmap := sm;
                  rpmap := fold_left (fun d u => dset u (r_prefix r) d) us rp;
                  ctrie := fold_left (fun t u => insert u (r_prefix r) t) us tr; patmap := pt |}).
  { induction us as [|u us IH]; intros rp tr x1 x pm sm pt dl rs.
    - exists x. reflexivity.
    - cbn [map fold_left]. rewrite form_cons. unfold l2 at 1. cbn. apply IH. }
  match goal with |- context [for_loopm l2 _ [PRec r; ?a; ?b] {| delim := ?dl; recs := ?rs; pmap := ?pm; synmap := ?sm; rpmap := ?rp; ctrie := ?tr; patmap := ?pt |}] =>
    destruct (L2 (r_usyn r) rp tr a b pm sm pt dl rs) as [y2 E2] end.
  rewrite E2. cbn. unfold set_trie, set_sdict. cbn.
  unfold index, all_prefixes, all_uris, nonempty_pat. cbn [fold_left].
  destruct (r_pat r) as [[|ch pat]|]; cbn; try reflexivity.
  destruct (dhas (r_prefix r) (patmap c)); cbn; reflexivity.
Qed.
Print Assumptions frag_index_ok.

(* Obligations about the method bodies of the working tree (gen/Gen.v, frag_table, written by translator/frag.py on this run); see
   FragObl_base.v.  This file: parse, compress_or_standardize, expand_or_standardize. *)
From Coq Require Import List NArith Bool Arith Lia.
From Curies.model Require Import Str PyData Trie Conv Query PyFrag.
From Curies.proofs Require Import StrFacts TrieFacts.
From Curies.gen Require Import Gen.
From Curies.gen Require Export FragObl_base.
From Curies.gen Require Export FragObl_uri.
From Curies.gen Require Export FragObl_curie.
Import ListNotations.
Ltac rw ::= first [ rewrite frag_split_ok | rewrite frag_format_curie_ok | rewrite frag_standardize_prefix_ok
                  | rewrite frag_standardize_identifier_ok | rewrite frag_parse_uri_ok | rewrite frag_parse_uri_legacy | rewrite frag_compress_ok | rewrite frag_is_uri_ok | rewrite frag_compress_strict_ok | rewrite frag_parse_curie_ok by assumption | rewrite frag_expand_reference_ok | rewrite frag_expand_pair_ok | rewrite frag_expand_ok by assumption | rewrite frag_is_curie_ok by assumption | rewrite frag_expand_strict_ok by assumption ].

Lemma frag_parse_ok k c s st : delim c <> [] ->
  run (S (S (S (S (S k))))) frag_table c f_parse [PStr s; PBool st] = inj_ref (parse c s st).
Proof.
  intro Hd. step. repeat rw. unfold parse, inj_bool. cbn.
  destruct (is_uri c s); cbn; [fin|]. repeat rw. unfold inj_bool. cbn. destruct (is_curie c s); fin.
Qed.
Print Assumptions frag_parse_ok.
Ltac rw ::= first [ rewrite frag_split_ok | rewrite frag_format_curie_ok | rewrite frag_standardize_prefix_ok
                  | rewrite frag_standardize_identifier_ok | rewrite frag_parse_uri_ok | rewrite frag_parse_uri_legacy | rewrite frag_compress_ok | rewrite frag_is_uri_ok | rewrite frag_compress_strict_ok | rewrite frag_parse_curie_ok by assumption | rewrite frag_expand_reference_ok | rewrite frag_expand_pair_ok | rewrite frag_expand_ok by assumption | rewrite frag_is_curie_ok by assumption | rewrite frag_expand_strict_ok by assumption | rewrite frag_parse_ok by assumption ].

Lemma parse_nonstrict_val c s : exists r, parse c s false = Val r.
Proof.
  unfold parse. destruct (is_uri c s).
  - unfold parse_uri. destruct (parse_uri_core c s); eexists; reflexivity.
  - destruct (is_curie c s); [apply parse_curie_nonstrict_val | eexists; reflexivity].
Qed.

Lemma frag_compress_or_standardize_ok k c s st pt : delim c <> [] ->
  run (S (S (S (S (S (S k)))))) frag_table c f_compress_or_standardize [PStr s; PBool st; PBool pt] = inj_str (compress_or_standardize c s st pt).
Proof.
  intro Hd. step. repeat rw. unfold compress_or_standardize.
  destruct (parse_nonstrict_val c s) as [r E]. rewrite E. destruct r as [[p i]|]; fin.
Qed.
Print Assumptions frag_compress_or_standardize_ok.

Lemma frag_expand_or_standardize_ok k c s st pt : delim c <> [] ->
  run (S (S (S (S (S (S k)))))) frag_table c f_expand_or_standardize [PStr s; PBool st; PBool pt] = inj_str (expand_or_standardize c s st pt).
Proof.
  intro Hd. step. repeat rw. unfold expand_or_standardize.
  destruct (parse_nonstrict_val c s) as [r E]. rewrite E. destruct r as [[p i]|]; fin.
Qed.
Print Assumptions frag_expand_or_standardize_ok.

(* Generated-obligation file for C17: FAILURE_CODE as read from resolver_service.py on this run. *)
From Curies.model Require Import Str Resolver.
From Curies.gen Require Gen.
Theorem GenObl_C17_failure_code : Gen.failure_code = Resolver.failure_code.
Proof. reflexivity. Qed.
Print Assumptions GenObl_C17_failure_code.

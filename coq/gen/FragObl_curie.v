(* Obligations about the method bodies of the working tree (gen/Gen.v, frag_table, written by translator/frag.py on this run); see
   FragObl_base.v.  This file: parse_curie, expand_reference, expand_pair, expand, is_curie, expand_strict. *)
From Coq Require Import List NArith Bool Arith Lia.
From Curies.model Require Import Str PyData Trie Conv Query PyFrag.
From Curies.proofs Require Import StrFacts TrieFacts.
From Curies.gen Require Import Gen.
From Curies.gen Require Export FragObl_base.
Import ListNotations.
Ltac rw ::= first [ rewrite frag_split_ok | rewrite frag_format_curie_ok | rewrite frag_standardize_prefix_ok
                  | rewrite frag_standardize_identifier_ok | rewrite frag_parse_uri_ok | rewrite frag_parse_uri_legacy ].

Lemma frag_parse_curie_ok k c s st : delim c <> [] ->
  run (S (S k)) frag_table c f_parse_curie [PStr s; PBool st] = inj_ref (parse_curie c s st).
Proof.
  intro Hd. step. repeat rw. unfold split_res, split_curie, parse_curie, standardize_prefix, fail_mode.
  destruct (delim c) as [|d ds] eqn:D; [congruence|]. fin.
Qed.
Print Assumptions frag_parse_curie_ok.
Ltac rw ::= first [ rewrite frag_split_ok | rewrite frag_format_curie_ok | rewrite frag_standardize_prefix_ok
                  | rewrite frag_standardize_identifier_ok | rewrite frag_parse_uri_ok | rewrite frag_parse_uri_legacy | rewrite frag_parse_curie_ok by assumption ].

Lemma frag_expand_reference_ok k c p i st pt :
  run (S (S k)) frag_table c f_expand_reference [PTup [PStr p; PStr i]; PBool st; PBool pt] = inj_str (expand_reference c (p, i) st pt).
Proof. step. unfold expand_reference, fail_mode. cbn [fst snd]. fin. Qed.
Print Assumptions frag_expand_reference_ok.
Ltac rw ::= first [ rewrite frag_split_ok | rewrite frag_format_curie_ok | rewrite frag_standardize_prefix_ok
                  | rewrite frag_standardize_identifier_ok | rewrite frag_parse_uri_ok | rewrite frag_parse_uri_legacy | rewrite frag_parse_curie_ok by assumption | rewrite frag_expand_reference_ok ].

Lemma frag_expand_pair_ok k c p i st pt :
  run (S (S (S k))) frag_table c f_expand_pair [PStr p; PStr i; PBool st; PBool pt] = inj_str (expand_pair c p i st pt).
Proof. step. unfold expand_pair. fin. Qed.
Print Assumptions frag_expand_pair_ok.

Lemma parse_curie_nonstrict_val c s : exists r, parse_curie c s false = Val r.
Proof.
  unfold parse_curie. destruct (partition (delim c) s) as [[p i]|]; [|eexists; reflexivity].
  destruct (dget p (synmap c)); eexists; reflexivity.
Qed.

Lemma frag_expand_ok k c s st pt : delim c <> [] ->
  run (S (S (S k))) frag_table c f_expand [PStr s; PBool st; PBool pt] = inj_str (expand c s st pt).
Proof.
  intro Hd. step. repeat rw. unfold expand, fail_mode.
  destruct (parse_curie_nonstrict_val c s) as [r E]. rewrite E. destruct r as [[p i]|]; fin.
Qed.
Print Assumptions frag_expand_ok.

Lemma expand_nonstrict_val c s : exists r, expand c s false false = Val r.
Proof.
  unfold expand. destruct (parse_curie_nonstrict_val c s) as [r E]. rewrite E. destruct r as [[p i]|].
  - unfold expand_reference, fail_mode. destruct (dget _ _); eexists; reflexivity.
  - eexists; reflexivity.
Qed.
Ltac rw ::= first [ rewrite frag_split_ok | rewrite frag_format_curie_ok | rewrite frag_standardize_prefix_ok
                  | rewrite frag_standardize_identifier_ok | rewrite frag_parse_uri_ok | rewrite frag_parse_uri_legacy | rewrite frag_parse_curie_ok by assumption | rewrite frag_expand_reference_ok | rewrite frag_expand_pair_ok | rewrite frag_expand_ok by assumption ].

Lemma frag_is_curie_ok k c s : delim c <> [] ->
  run (S (S (S (S k)))) frag_table c f_is_curie [PStr s] = inj_bool (is_curie c s).
Proof.
  intro Hd. step. repeat rw. unfold is_curie.
  destruct (expand_nonstrict_val c s) as [r E]. rewrite E. destruct r; fin.
Qed.
Print Assumptions frag_is_curie_ok.

Lemma frag_expand_strict_ok k c s : delim c <> [] ->
  run (S (S (S (S k)))) frag_table c f_expand_strict [PStr s] = inj_str (expand_strict c s).
Proof. intro Hd. step. unfold expand_strict. fin. Qed.
Print Assumptions frag_expand_strict_ok.
Ltac rw ::= first [ rewrite frag_split_ok | rewrite frag_format_curie_ok | rewrite frag_standardize_prefix_ok
                  | rewrite frag_standardize_identifier_ok | rewrite frag_parse_uri_ok | rewrite frag_parse_uri_legacy | rewrite frag_parse_curie_ok by assumption | rewrite frag_expand_reference_ok | rewrite frag_expand_pair_ok | rewrite frag_expand_ok by assumption | rewrite frag_is_curie_ok by assumption | rewrite frag_expand_strict_ok by assumption ].

(* Generated-obligation file for C03: signature defaults read from the working tree on this run. *)
From Curies.model Require Import Str.
From Curies.model Require Defaults.
From Curies.gen Require Gen.
(* the documented defaults of the signatures C03 speaks about are the defaults in the working tree *)
Theorem GenObl_C03_defaults : Defaults.defaults_hold Defaults.defaults_C03 Gen.defaults_C03 = true.
Proof. vm_compute. reflexivity. Qed.
Print Assumptions GenObl_C03_defaults.

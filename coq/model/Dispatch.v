(* Entry points of the extracted driver. *)
From Curies.model Require Export CheckQ.
Definition dispatch (entry prop : Z) (case obs : val) : val :=
  (if entry =? 1 then run_query prop case obs
   else VList [VInt (-2)])%Z.

(* Entry points of the extracted driver. *)
From Curies.model Require Export CheckQ W3C CheckD CheckM CheckL CheckR Resolver Mapping Reference Bulk Writers CheckW CheckH.
Definition dispatch (entry prop : Z) (case obs : val) : val :=
  (if entry =? 1 then run_query prop case obs
   else if entry =? 20 then run_w3c case obs
   else if entry =? 19 then run_discover case obs
   else if entry =? 5 then run_mutate case obs
   else if entry =? 4 then run_load prop case obs
   else if entry =? 9 then run_derive prop case obs
   else if entry =? 10 then run_heap case obs
   else if entry =? 17 then run_resolver case obs
   else if entry =? 18 then run_mapping case obs
   else if entry =? 15 then run_refs case obs
   else if entry =? 16 then run_bulk case obs
   else if entry =? 14 then run_writers_text case obs
   else VList [VInt (-2)])%Z.

(* Incremental construction and derivation: _match_record, add_record, _merge, _index, add_prefix, chain,
   get_subconverter.  Value level: each operation returns the new converter.  No proofs here. *)
From Curies.model Require Export Query.

Section M.
Variable fold_c : chr -> str.             (* str.casefold of one code point (full case folding) *)
Definition casefold (s : str) : str := flat_map fold_c s.

(* _eq / _in *)
Definition eq_cs (cs : bool) (a b : str) : bool := if cs then str_eqb a b else str_eqb (casefold a) (casefold b).
Definition in_cs (cs : bool) (a : str) (bs : list str) : bool := existsb (eq_cs cs a) bs.

(* Record._key *)
Definition record_key (r : record) : str * str * str * str :=
  (r_prefix r, r_uri r, join [44%N] (sort_str (r_psyn r)), join [44%N] (sort_str (r_usyn r))).
Definition key_eqb (a b : str * str * str * str) : bool :=
  let '(a1, a2, a3, a4) := a in let '(b1, b2, b3, b4) := b in
  str_eqb a1 b1 && str_eqb a2 b2 && str_eqb a3 b3 && str_eqb a4 b4.

(* does any of the eight tests of _match_record fire for this record? *)
Definition matches_record (cs : bool) (ext r : record) : bool :=
  existsb (fun p => eq_cs cs p (r_prefix r) || in_cs cs p (r_psyn r)) (all_prefixes ext)
  || existsb (fun u => eq_cs cs u (r_uri r) || in_cs cs u (r_usyn r)) (all_uris ext).

(* keys of the dict returned by _match_record, in insertion order *)
Definition match_record (c : conv) (ext : record) (cs : bool) : list (str * str * str * str) :=
  fold_left (fun acc r => if matches_record cs ext r
                          then (if existsb (key_eqb (record_key r)) acc then acc else acc ++ [record_key r])
                          else acc) (recs c) [].

(* _merge: synonyms are appended when not yet present (checked against the growing list), then sorted *)
Definition merge_list (canon : str) (syn : list str) (news : list str) : list str :=
  sort_str (fold_left (fun acc x => if str_eqb x canon || mem x acc then acc else acc ++ [x]) news syn).
Definition merge (r into : record) : record :=
  {| r_prefix := r_prefix into; r_uri := r_uri into;
     r_psyn := merge_list (r_prefix into) (r_psyn into) (all_prefixes r);
     r_usyn := merge_list (r_uri into) (r_usyn into) (all_uris r);
     r_pat := r_pat into |}.

(* _index *)
Definition index (c : conv) (r : record) (rs' : list record) : conv :=
  let pm := fold_left (fun d p => dset p (r_uri r) d) (all_prefixes r) (pmap c) in
  let sm := fold_left (fun d p => dset p (r_prefix r) d) (all_prefixes r) (synmap c) in
  let rp := fold_left (fun d u => dset u (r_prefix r) d) (all_uris r) (rpmap c) in
  let tr := fold_left (fun t u => insert u (r_prefix r) t) (all_uris r) (ctrie c) in
  let pt := match nonempty_pat r with
            | Some p => if dhas (r_prefix r) (patmap c) then patmap c else dset (r_prefix r) p (patmap c)
            | None => patmap c end in
  {| delim := delim c; recs := rs'; pmap := pm; synmap := sm; rpmap := rp; ctrie := tr; patmap := pt |}.

(* replace the first record with the given key *)
Fixpoint replace_key (k : str * str * str * str) (new : record) (rs : list record) : list record :=
  match rs with
  | [] => []
  | r :: rest => if key_eqb (record_key r) k then new :: rest else r :: replace_key k new rest
  end.

Definition add_record (c : conv) (r : record) (cs mg : bool) : res conv :=
  match match_record c r cs with
  | [] => Val (index c r (recs c ++ [r]))
  | [k] =>
      if mg then
        match List.find (fun x => key_eqb (record_key x) k) (recs c) with
        | Some existing => let m := merge r existing in Val (index c m (replace_key k m (recs c)))
        | None => Raise EOther              (* StopIteration: unreachable, the key came from the records *)
        end
      else Raise EValueError
  | _ => Raise EValueError
  end.

(* add_prefix: Record(...) with sorted synonyms (the validators may reject), then add_record *)
Definition add_prefix (c : conv) (p u : str) (ps us : list str) (cs mg : bool) : res conv :=
  bind (mk_record p u (sort_str ps) (sort_str us) None) (fun r => add_record c r cs mg).

(* chain: an empty converter absorbing every record of every input with merge=True *)
Definition empty_conv : conv :=
  {| delim := [58%N]; recs := []; pmap := []; synmap := []; rpmap := []; ctrie := empty; patmap := [] |}.
Definition chain (cs : list conv) (sens : bool) : res conv :=
  match cs with
  | [] => Raise EValueError
  | _ => fold_left (fun acc r => bind acc (fun a => add_record a r sens true)) (flat_map recs cs) (Val empty_conv)
  end.

(* get_subconverter *)
Definition get_subconverter (c : conv) (P : list str) : res conv :=
  mk_conv true [58%N] (filter (fun r => existsb (fun p => mem p P) (all_prefixes r)) (recs c)).
End M.

(* Naive specification of every query as a function of the record collection alone:
   no index, no trie, no sorting -- "the record that lists p", "the longest registered URI prefix of u".
   Written from the property statements; used by the theorems and by the executable property predicates. *)
From Curies.model Require Export Answer.

Definition owner_by_prefix (rs : list record) (p : str) : option record :=
  List.find (fun r => mem p (all_prefixes r)) rs.

(* all (registered URI prefix, owning record) pairs that are a prefix of u *)
Definition cands (rs : list record) (u : str) : list (str * record) :=
  flat_map (fun r => map (fun p => (p, r)) (filter (fun p => prefixb p u) (all_uris r))) rs.
Fixpoint argmax (l : list (str * record)) : option (str * record) :=
  match l with
  | [] => None
  | x :: l' => match argmax l' with
               | Some y => if length (fst x) <? length (fst y) then Some y else Some x
               | None => Some x end
  end.
Definition longest_match (rs : list record) (u : str) : option (str * record) := argmax (cands rs u).

Definition sp_parse_uri (rs : list record) (u : str) : option ref :=
  match longest_match rs u with Some (p, r) => Some (r_prefix r, skipn (length p) u) | None => None end.
Definition sp_parse_curie (rs : list record) (d s : str) : option ref :=
  match partition d s with
  | None => None
  | Some (p, i) => match owner_by_prefix rs p with Some r => Some (r_prefix r, i) | None => None end
  end.
Definition sp_expand (rs : list record) (d s : str) : option str :=
  match partition d s with
  | None => None
  | Some (p, i) => match owner_by_prefix rs p with Some r => Some (r_uri r ++ i) | None => None end
  end.
Definition sp_expand_pair (rs : list record) (p i : str) : option str :=
  match owner_by_prefix rs p with Some r => Some (r_uri r ++ i) | None => None end.
Definition sp_expand_pair_all (rs : list record) (p i : str) : option (list str) :=
  match owner_by_prefix rs p with Some r => Some (map (fun up => up ++ i) (all_uris r)) | None => None end.
Definition sp_expand_all (rs : list record) (d s : str) : option (list str) :=
  match partition d s with None => None | Some (p, i) => sp_expand_pair_all rs p i end.
Definition sp_std_prefix (rs : list record) (p : str) : option str := option_map r_prefix (owner_by_prefix rs p).
Definition sp_std_curie (rs : list record) (d s : str) : option str :=
  option_map (fun r => fst r ++ d ++ snd r) (sp_parse_curie rs d s).
Definition sp_std_uri (rs : list record) (u : str) : option str :=
  match longest_match rs u with Some (p, r) => Some (r_uri r ++ skipn (length p) u) | None => None end.
Definition sp_compress (rs : list record) (d u : str) : option str :=
  option_map (fun r => fst r ++ d ++ snd r) (sp_parse_uri rs u).
Definition sp_is_uri rs u := match longest_match rs u with Some _ => true | None => false end.
Definition sp_is_curie rs d s := match sp_expand rs d s with Some _ => true | None => false end.
(* URIs take precedence *)
Definition sp_parse (rs : list record) (d s : str) : option ref :=
  match sp_parse_uri rs s with Some r => Some r | None => sp_parse_curie rs d s end.

Definition wrap {A} (strict pass : bool) (e : err) (x : A) (o : option A) : res (option A) :=
  match o with Some y => Val (Some y) | None => fail_mode strict pass e x end.
Definition wrap1 {A} (strict : bool) (e : err) (o : option A) : res (option A) :=
  match o with Some y => Val (Some y) | None => if strict then Raise e else Val None end.

Definition canon_record (r : record) : record :=
  {| r_prefix := r_prefix r; r_uri := r_uri r; r_psyn := r_psyn r; r_usyn := r_usyn r; r_pat := r_pat r |}.

Definition spec_answer (rs : list record) (d : str) (q : query) : val :=
  match q with
  | QParseUri s st => vres voref (wrap1 st ECompression (sp_parse_uri rs s))
  | QCompress s st pa => vres vostr (wrap st pa ECompression s (sp_compress rs d s))
  | QIsUri s => vres vbool (Val (sp_is_uri rs s))
  | QParseCurie s st => vres voref (wrap1 st EPrefixStd (sp_parse_curie rs d s))
  | QExpand s st pa => vres vostr (wrap st pa EExpansion s (sp_expand rs d s))
  | QIsCurie s => vres vbool (Val (sp_is_curie rs d s))
  | QExpandAll s st => vres vostrs (wrap1 st EPrefixStd (sp_expand_all rs d s))
  | QParse s st => vres voref (wrap1 st ECompression (sp_parse rs d s))
  | QCompressOrStd s st pa =>
      vres vostr (wrap st pa ECompression s (option_map (fun r => fst r ++ d ++ snd r) (sp_parse rs d s)))
  | QExpandOrStd s st pa =>
      vres vostr (wrap st pa EExpansion s
        (match sp_parse rs d s with Some (p, i) => sp_expand_pair rs p i | None => None end))
  | QStdPrefix s st pa => vres vostr (wrap st pa EPrefixStd s (sp_std_prefix rs s))
  | QStdCurie s st pa => vres vostr (wrap st pa ECURIEStd s (sp_std_curie rs d s))
  | QStdUri s st pa => vres vostr (wrap st pa EURIStd s (sp_std_uri rs s))
  | QCompressStrict s => vres vostr (wrap true false ECompression s (sp_compress rs d s))
  | QExpandStrict s => vres vostr (wrap true false EExpansion s (sp_expand rs d s))
  | QExpandPair p i st pa => vres vostr (wrap st pa EExpansion (p ++ d ++ i) (sp_expand_pair rs p i))
  | QExpandRef p i st pa => vres vostr (wrap st pa EExpansion (p ++ d ++ i) (sp_expand_pair rs p i))
  | QExpandPairAll p i st => vres vostrs (wrap1 st EExpansion (sp_expand_pair_all rs p i))
  | QFormatCurie p i => vres VStr (Val (p ++ d ++ i))
  | QGetRecord p => vres (vopt vrecord) (Val (owner_by_prefix rs p))
  | QBimap => vres vdict (Val (map (fun r => (r_prefix r, r_uri r)) rs))
  | QReverseBimap => vres vdict (Val (map (fun r => (r_uri r, r_prefix r)) rs))
  | QGetPrefixes syn => vres vstrs (Val (sort_uniq (map r_prefix rs ++ if syn then flat_map r_psyn rs else [])))
  | QGetUriPrefixes syn => vres vstrs (Val (sort_uniq (map r_uri rs ++ if syn then flat_map r_usyn rs else [])))
  | QRecords => vres (fun rs => VList (map vrecord rs)) (Val (sort_records rs))
  | QPrefixMap => vres vdict (Val (flat_map (fun r => map (fun p => (p, r_uri r)) (all_prefixes r)) rs))
  | QReversePrefixMap => vres vdict (Val (flat_map (fun r => map (fun u => (u, r_prefix r)) (all_uris r)) rs))
  | QSynonymToPrefix => vres vdict (Val (flat_map (fun r => map (fun p => (p, r_prefix r)) (all_prefixes r)) rs))
  | QPatternMap => vres vdict (Val (flat_map (fun r => match nonempty_pat r with Some p => [(r_prefix r, p)] | None => [] end) rs))
  end.

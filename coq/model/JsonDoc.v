(* Whole JSON documents as Python's json module (CPython 3.12) writes and reads them.
     json_dump ascii v  =  json.dumps(v, indent=4, sort_keys=True, ensure_ascii=ascii)
                           (the text json.dump(v, file, indent=4, sort_keys=True, ensure_ascii=ascii) writes)
     json_parse text    =  json.loads(text)      Some v: the value returned, None: json.loads raises
   Values: str, True, False, None, list, dict with str keys (an insertion-ordered association list; a Python dict has
   unique keys).  Numbers are NOT modelled: where CPython's scanner would match a number token, NaN, Infinity or
   -Infinity (i.e. would call parse_int / parse_float / parse_constant) json_parse returns None.  Not modelled either:
   RecursionError on very deeply nested texts / values.
   The writer is json.encoder._make_iterencode (the pure-Python encoder is the one used whenever indent is not None):
   item separator ',', key separator ': ', newline + 4 * level spaces, '[]' and '{}' for empty containers,
   items = sorted(dct.items()) (str keys compare by code points; keys are unique so values are never compared).
   The reader is _json.c: scan_once_unicode, _parse_object_unicode, _parse_array_unicode, scanstring_unicode with
   strict=True, and JSONDecoder.decode (white space before and after the value, then "Extra data").
   Definitions only; the proofs are in proofs/JsonDocFacts.v. *)
From Curies.model Require Import Str PyData JsonStr.
Local Open Scope N_scope.

Inductive jv :=
| JS (s : str)
| JTrue
| JFalse
| JNull
| JArr (l : list jv)
| JObj (kvs : list (str * jv)).

(* ---------- json.dumps(v, indent=4, sort_keys=True, ensure_ascii=ascii) ---------- *)
Definition lit_true : str := [116; 114; 117; 101].
Definition lit_false : str := [102; 97; 108; 115; 101].
Definition lit_null : str := [110; 117; 108; 108].

(* '\n' + ' ' * (4 * level) *)
Definition newline_indent (lvl : nat) : str := 10 :: repeat 32 (4 * lvl)%nat.
(* _item_separator + newline_indent *)
Definition item_sep (lvl : nat) : str := 44 :: newline_indent lvl.
(* one dictionary item: encoded key, ': ', the already written value *)
Definition member_text (ascii : bool) (kt : str * str) : str :=
  json_encode_str ascii (fst kt) ++ [58; 32] ++ snd kt.
(* the body of a non-empty container at nesting level lvl (its items are at level S lvl) *)
Definition container (open close : chr) (lvl : nat) (items : list str) : str :=
  open :: newline_indent (S lvl) ++ join (item_sep (S lvl)) items ++ newline_indent lvl ++ [close].

Fixpoint dump (ascii : bool) (lvl : nat) (v : jv) : str :=
  match v with
  | JS s => json_encode_str ascii s
  | JTrue => lit_true
  | JFalse => lit_false
  | JNull => lit_null
  | JArr l =>
      match l with
      | [] => [91; 93]
      | _ :: _ => container 91 93 lvl (map (dump ascii (S lvl)) l)
      end
  | JObj kvs =>
      match kvs with
      | [] => [123; 125]
      | _ :: _ =>
          container 123 125 lvl
            (map (member_text ascii)
                 (sort_by_key fst (map (fun kv => match kv with (k, x) => (k, dump ascii (S lvl) x) end) kvs)))
      end
  end.

Definition json_dump (ascii : bool) (v : jv) : str := dump ascii 0 v.

(* ---------- json.loads ---------- *)
(* IS_WHITESPACE of _json.c, the class [ \t\n\r] of json.decoder.WHITESPACE *)
Definition is_ws (c : chr) : bool := (c =? 32) || (c =? 9) || (c =? 10) || (c =? 13).
Fixpoint skip_ws (s : str) : str :=
  match s with
  | [] => []
  | c :: t => if is_ws c then skip_ws t else s
  end.

(* scanstring_unicode(s, end, strict=True) with s the text after the opening quote: the decoded str and the text
   after the closing quote.  The same automaton as JsonStr.scan_body, which insists that the closing quote is the
   last character (JsonDocFacts.scan_str_iff: scan_str s = Some (r, rest) <-> s = body ++ rest with
   scan_body body = Some r). *)
Fixpoint scan_str (s : str) : option (str * str) :=
  match s with
  | [] => None                                           (* unterminated string *)
  | c :: t =>
      if c =? 34 then Some ([], t)
      else if c =? 92 then
        match t with
        | [] => None
        | e :: t1 =>
            if e =? 117 then
              match t1 with
              | h1 :: h2 :: h3 :: h4 :: t2 =>
                  match hex4val h1 h2 h3 h4 with
                  | None => None                         (* invalid \uXXXX escape *)
                  | Some u1 =>
                      match (if is_high u1 then low_escape t2 else None) with
                      | Some u2 =>
                          match t2 with
                          | _ :: _ :: _ :: _ :: _ :: _ :: t3 =>
                              match scan_str t3 with
                              | Some (r, rest) => Some (join_surrogates u1 u2 :: r, rest)
                              | None => None
                              end
                          | _ => None
                          end
                      | None =>
                          match scan_str t2 with
                          | Some (r, rest) => Some (u1 :: r, rest)
                          | None => None
                          end
                      end
                  end
              | _ => None
              end
            else
              match unescape1 e with
              | Some c' =>
                  match scan_str t1 with
                  | Some (r, rest) => Some (c' :: r, rest)
                  | None => None
                  end
              | None => None                             (* invalid \escape *)
              end
        end
      else if c <? 32 then None                          (* invalid control character (strict) *)
      else
        match scan_str t with
        | Some (r, rest) => Some (c :: r, rest)
        | None => None
        end
  end.

(* scan_once_unicode / _parse_array_unicode / _parse_object_unicode.  The three functions call each other on the
   text that remains, so they recurse on a fuel argument; every call passes fuel - 1 down.  None = the scanner raises
   (or the fuel ran out: JsonDocFacts.parse_value_enough shows that 2 * length + 1 is always enough).
     parse_value   s : s starts at the first character of a value
     parse_elems   s : s starts at the first character of an array element (after '[' or ',' and white space)
     parse_members s : s starts where a property name must start (after '{' or ',' and white space)
   The object's pairs are returned in text order; dict_of applies PyDict_SetItem to them from left to right (a key that
   repeats keeps its first position and takes the last value). *)
Fixpoint parse_value (fuel : nat) (s : str) {struct fuel} : option (jv * str) :=
  match fuel with
  | O => None
  | S f =>
      match s with
      | [] => None                                                   (* Expecting value *)
      | c :: t =>
          if c =? 34 then
            match scan_str t with
            | Some (r, rest) => Some (JS r, rest)
            | None => None
            end
          else if c =? 123 then
            match skip_ws t with
            | [] => None                                             (* Expecting property name *)
            | d :: t' =>
                if d =? 125 then Some (JObj [], t')
                else match parse_members f (d :: t') with
                     | Some (kvs, rest) => Some (JObj (dict_of kvs), rest)
                     | None => None
                     end
            end
          else if c =? 91 then
            match skip_ws t with
            | [] => None                                             (* Expecting value *)
            | d :: t' =>
                if d =? 93 then Some (JArr [], t')
                else match parse_elems f (d :: t') with
                     | Some (vs, rest) => Some (JArr vs, rest)
                     | None => None
                     end
            end
          else if prefixb lit_null s then Some (JNull, skipn 4 s)
          else if prefixb lit_true s then Some (JTrue, skipn 4 s)
          else if prefixb lit_false s then Some (JFalse, skipn 5 s)
          else None                                                  (* a number (not modelled) or Expecting value *)
      end
  end
with parse_elems (fuel : nat) (s : str) {struct fuel} : option (list jv * str) :=
  match fuel with
  | O => None
  | S f =>
      match parse_value f s with
      | None => None
      | Some (v, r) =>
          match skip_ws r with
          | [] => None                                               (* Expecting ',' delimiter *)
          | d :: r' =>
              if d =? 93 then Some ([v], r')
              else if d =? 44 then
                match parse_elems f (skip_ws r') with
                | Some (vs, rest) => Some (v :: vs, rest)
                | None => None
                end
              else None                                              (* Expecting ',' delimiter *)
          end
      end
  end
with parse_members (fuel : nat) (s : str) {struct fuel} : option (list (str * jv) * str) :=
  match fuel with
  | O => None
  | S f =>
      match s with
      | [] => None                                                   (* Expecting property name *)
      | q :: t =>
          if q =? 34 then
            match scan_str t with
            | None => None
            | Some (k, r) =>
                match skip_ws r with
                | [] => None                                         (* Expecting ':' delimiter *)
                | col :: r1 =>
                    if col =? 58 then
                      match parse_value f (skip_ws r1) with
                      | None => None
                      | Some (v, r2) =>
                          match skip_ws r2 with
                          | [] => None                               (* Expecting ',' delimiter *)
                          | d :: r3 =>
                              if d =? 125 then Some ([(k, v)], r3)
                              else if d =? 44 then
                                match parse_members f (skip_ws r3) with
                                | Some (kvs, rest) => Some ((k, v) :: kvs, rest)
                                | None => None
                                end
                              else None                              (* Expecting ',' delimiter *)
                          end
                      end
                    else None                                        (* Expecting ':' delimiter *)
                end
            end
          else None                                                  (* Expecting property name *)
      end
  end.

(* JSONDecoder.decode: white space, one value, white space, end of text (else "Extra data") *)
Definition parse_fuel (s : str) : nat := S (2 * length s).
Definition json_parse (text : str) : option jv :=
  let s := skip_ws text in
  match parse_value (parse_fuel s) s with
  | Some (v, rest) => match skip_ws rest with [] => Some v | _ :: _ => None end
  | None => None
  end.

(* ---------- what the round trip does to a value ---------- *)
(* the keys of every dictionary in sorted order *)
Fixpoint sort_keys (v : jv) : jv :=
  match v with
  | JArr l => JArr (map sort_keys l)
  | JObj kvs => JObj (sort_by_key fst (map (fun kv => match kv with (k, x) => (k, sort_keys x) end) kvs))
  | _ => v
  end.

(* how a str comes back: with ensure_ascii=True it is read as UTF-16 *)
Definition str_readback (ascii : bool) (s : str) : str := if ascii then utf16_join s else s.

(* json.loads(json.dumps(v, indent=4, sort_keys=True, ensure_ascii=ascii)) for EVERY value of Python strs *)
Fixpoint readback (ascii : bool) (v : jv) : jv :=
  match v with
  | JS s => JS (str_readback ascii s)
  | JArr l => JArr (map (readback ascii) l)
  | JObj kvs =>
      JObj (dict_of (map (fun kv => (str_readback ascii (fst kv), snd kv))
                         (sort_by_key fst (map (fun kv => match kv with (k, x) => (k, readback ascii x) end) kvs))))
  | _ => v
  end.

(* ---------- the hypotheses, decidable ---------- *)
Fixpoint nodupb (l : list str) : bool :=
  match l with
  | [] => true
  | x :: t => negb (mem x t) && nodupb t
  end.

(* every dictionary is a Python dict: its keys are unique *)
Fixpoint jv_keys_unique (v : jv) : bool :=
  match v with
  | JArr l => forallb jv_keys_unique l
  | JObj kvs => nodupb (map fst kvs) && forallb (fun kv => jv_keys_unique (snd kv)) kvs
  | _ => true
  end.

(* every str and every key satisfies p *)
Fixpoint jv_all (p : str -> bool) (v : jv) : bool :=
  match v with
  | JS s => p s
  | JArr l => forallb (jv_all p) l
  | JObj kvs => forallb (fun kv => p (fst kv) && jv_all p (snd kv)) kvs
  | _ => true
  end.

(* the strs are Python strs: code points <= 0x10FFFF (it only matters with ensure_ascii=True) *)
Definition jv_wf (ascii : bool) (v : jv) : bool := jv_all (fun s => negb ascii || str_valid s) v.
(* the values that survive the round trip *)
Definition jv_rt_ok (ascii : bool) (v : jv) : bool := jv_keys_unique v && jv_all (json_rt_ok ascii) v.

(* the keys of every dictionary are strictly increasing (code point order) *)
Fixpoint increasing (l : list str) : bool :=
  match l with
  | [] => true
  | x :: t => match t with [] => true | y :: _ => str_ltb x y && increasing t end
  end.
Fixpoint jv_keys_sorted (v : jv) : bool :=
  match v with
  | JArr l => forallb jv_keys_sorted l
  | JObj kvs => increasing (map fst kvs) && forallb (fun kv => jv_keys_sorted (snd kv)) kvs
  | _ => true
  end.

(* ---------- the two shapes curies writes ---------- *)
Definition jstrs (l : list str) : jv := JArr (map JS l).

(* (a) extended prefix map: a list of dictionaries whose values are strs or lists of strs *)
Inductive field := FStr (s : str) | FStrs (l : list str).
Definition jv_of_field (f : field) : jv := match f with FStr s => JS s | FStrs l => jstrs l end.
Definition jv_of_fields (d : list (str * field)) : jv := JObj (map (fun kf => (fst kf, jv_of_field (snd kf))) d).
Definition epm_doc (ds : list (list (str * field))) : jv := JArr (map jv_of_fields ds).

Fixpoint strs_of_jvs (l : list jv) : option (list str) :=
  match l with
  | [] => Some []
  | JS s :: t => option_map (cons s) (strs_of_jvs t)
  | _ :: _ => None
  end.
Definition field_of_jv (v : jv) : option field :=
  match v with
  | JS s => Some (FStr s)
  | JArr l => option_map FStrs (strs_of_jvs l)
  | _ => None
  end.
Fixpoint fields_of_kvs (kvs : list (str * jv)) : option (list (str * field)) :=
  match kvs with
  | [] => Some []
  | (k, v) :: t =>
      match field_of_jv v, fields_of_kvs t with
      | Some f, Some d => Some ((k, f) :: d)
      | _, _ => None
      end
  end.
Definition fields_of_jv (v : jv) : option (list (str * field)) :=
  match v with JObj kvs => fields_of_kvs kvs | _ => None end.
Fixpoint opt_map_all {A B} (f : A -> option B) (l : list A) : option (list B) :=
  match l with
  | [] => Some []
  | a :: t => match f a, opt_map_all f t with Some b, Some r => Some (b :: r) | _, _ => None end
  end.
Definition epm_of_jv (v : jv) : option (list (list (str * field))) :=
  match v with JArr l => opt_map_all fields_of_jv l | _ => None end.

(* write an extended prefix map (ensure_ascii=False) and json.load it *)
Definition epm_write (ds : list (list (str * field))) : str := json_dump false (epm_doc ds).
Definition epm_read (text : str) : option (list (list (str * field))) :=
  match json_parse text with Some v => epm_of_jv v | None => None end.

(* (b) JSON-LD context: {"@context": {term: value}}, a value is a str or {"@prefix": true, "@id": str} *)
Inductive ctx_term := CStr (s : str) | CPrefix (id : str).
Definition k_context : str := [64; 99; 111; 110; 116; 101; 120; 116].
Definition k_at_prefix : str := [64; 112; 114; 101; 102; 105; 120].
Definition k_at_id : str := [64; 105; 100].
Definition jv_of_term (t : ctx_term) : jv :=
  match t with
  | CStr s => JS s
  | CPrefix id => JObj [(k_at_prefix, JTrue); (k_at_id, JS id)]
  end.
Definition jsonld_doc (ctx : list (str * ctx_term)) : jv :=
  JObj [(k_context, JObj (map (fun kt => (fst kt, jv_of_term (snd kt))) ctx))].

(* the reader accepts the two keys of a prefix term in any order *)
Definition term_of_jv (v : jv) : option ctx_term :=
  match v with
  | JS s => Some (CStr s)
  | JObj [(k1, v1); (k2, v2)] =>
      match v1, v2 with
      | JTrue, JS id => if str_eqb k1 k_at_prefix && str_eqb k2 k_at_id then Some (CPrefix id) else None
      | JS id, JTrue => if str_eqb k1 k_at_id && str_eqb k2 k_at_prefix then Some (CPrefix id) else None
      | _, _ => None
      end
  | _ => None
  end.
Fixpoint terms_of_kvs (kvs : list (str * jv)) : option (list (str * ctx_term)) :=
  match kvs with
  | [] => Some []
  | (k, v) :: t =>
      match term_of_jv v, terms_of_kvs t with
      | Some x, Some d => Some ((k, x) :: d)
      | _, _ => None
      end
  end.
Definition jsonld_of_jv (v : jv) : option (list (str * ctx_term)) :=
  match v with
  | JObj [(k, JObj kvs)] => if str_eqb k k_context then terms_of_kvs kvs else None
  | _ => None
  end.

(* write a JSON-LD context (ensure_ascii=True, the default of json.dump) and json.load it *)
Definition jsonld_write (ctx : list (str * ctx_term)) : str := json_dump true (jsonld_doc ctx).
Definition jsonld_read (text : str) : option (list (str * ctx_term)) :=
  match json_parse text with Some v => jsonld_of_jv v | None => None end.

(* ---------- the hypotheses of the two round trips, decidable ---------- *)
(* every record dictionary has unique keys (any Python dict has) *)
Definition epm_ok (ds : list (list (str * field))) : bool := forallb (fun d => nodupb (map fst d)) ds.
(* the terms are unique, and terms and values survive ensure_ascii=True *)
Definition ctx_term_str (t : ctx_term) : str := match t with CStr s => s | CPrefix id => id end.
Definition jsonld_ok (ctx : list (str * ctx_term)) : bool :=
  nodupb (map fst ctx) &&
  forallb (fun kt => json_rt_ok true (fst kt) && json_rt_ok true (ctx_term_str (snd kt))) ctx.

(* ---------- bridge to the abstract JSON of model/Writers.v and the terms of model/Loaders.v ----------
   (Writers.jval = JStr | JList is the type field; Loaders.term = TStr | TPrefix | TOther) *)
From Curies.model Require Val Loaders Writers.

Definition field_of_jval (j : Writers.jval) : field :=
  match j with Writers.JStr s => FStr s | Writers.JList l => FStrs l end.
Definition jval_of_field (f : field) : Writers.jval :=
  match f with FStr s => Writers.JStr s | FStrs l => Writers.JList l end.
Definition fields_of_dict (d : list (str * Writers.jval)) : list (str * field) :=
  map (fun kv => (fst kv, field_of_jval (snd kv))) d.
Definition dict_of_fields (d : list (str * field)) : list (str * Writers.jval) :=
  map (fun kv => (fst kv, jval_of_field (snd kv))) d.

(* write_extended_prefix_map: the text for the records;  json.load + one Record per dictionary *)
Definition epm_records_write (rs : list Conv.record) : str :=
  epm_write (map (fun r => fields_of_dict (Writers.record_to_dict r)) rs).
Definition epm_records_read (text : str) : option (list Conv.record) :=
  match epm_read text with
  | Some ds => Val.all_some (map (fun d => Writers.record_of_dict (dict_of_fields d)) ds)
  | None => None
  end.

Definition term_of_ctx_term (t : ctx_term) : Loaders.term :=
  match t with CStr s => Loaders.TStr s | CPrefix id => Loaders.TPrefix id end.
Definition ctx_term_of_term (t : Loaders.term) : option ctx_term :=
  match t with Loaders.TStr s => Some (CStr s) | Loaders.TPrefix id => Some (CPrefix id) | Loaders.TOther => None end.
Definition terms_of_ctx (ctx : list (str * ctx_term)) : list (str * Loaders.term) :=
  map (fun kt => (fst kt, term_of_ctx_term (snd kt))) ctx.
Definition ctx_of_terms (ctx : list (str * Loaders.term)) : option (list (str * ctx_term)) :=
  opt_map_all (fun kt => option_map (pair (fst kt)) (ctx_term_of_term (snd kt))) ctx.

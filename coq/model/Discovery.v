(* curies.discovery.discover and _get_uri_prefix_to_luids.  No proofs here. *)
From Coq Require Import DecimalNat Decimal.
From Curies.model Require Export Query Val.

Section D.
Variable isalnum_c : chr -> bool.         (* str.isalnum of one code point *)

(* luid.isalnum(): non-empty and every character alphanumeric *)
Definition isalnum (s : str) : bool := match s with [] => false | _ => forallb isalnum_c s end.

Definition github : str := [104;116;116;112;115;58;47;47;103;105;116;104;117;98;46;99;111;109]%N.  (* "https://github.com" *)
Definition issues : str := [105;115;115;117;101;115]%N.                                            (* "issues" *)
Definition github_issue (u : str) : bool := prefixb github u && contains issues u.

Definition default_delimiters : list str := [[35]; [47]; [95]]%N.    (* ('#', '/', '_') *)

(* the inner for-loop: first delimiter (in priority order) that occurs in the URI and leaves an alphanumeric tail *)
Fixpoint classify (delims : list str) (u : str) : option (str * str) :=
  match delims with
  | [] => None
  | dl :: rest =>
      match rsplit1 dl u with
      | None => classify rest u                          (* delimiter not in uri: continue *)
      | Some (pre, luid) => if isalnum luid then Some (pre ++ dl, luid) else classify rest u
      end
  end.

(* defaultdict(set): key -> distinct luids in first-seen order *)
Definition add_luid (k luid : str) (d : dict (list str)) : dict (list str) :=
  match dget k d with
  | Some l => if mem luid l then d else dset k (l ++ [luid]) d
  | None => dset k [luid] d
  end.

(* [recog u]: the URI is already recognised by the converter passed to discover (converter.is_uri(u)); no converter = never *)
Definition skip (recog : str -> bool) (u : str) : bool := recog u || github_issue u.

Definition uri_prefix_to_luids (recog : str -> bool) (delims : list str) (uris : list str) : dict (list str) :=
  let delims := match delims with [] => default_delimiters | _ => delims end in
  fold_left (fun d u => if skip recog u then d
                        else match classify delims u with Some (p, l) => add_luid p l d | None => d end) uris [].

(* f"{i}" *)
Fixpoint uint_digits (u : Decimal.uint) : str :=
  match u with
  | Nil => []
  | D0 r => 48%N :: uint_digits r | D1 r => 49%N :: uint_digits r | D2 r => 50%N :: uint_digits r
  | D3 r => 51%N :: uint_digits r | D4 r => 52%N :: uint_digits r | D5 r => 53%N :: uint_digits r
  | D6 r => 54%N :: uint_digits r | D7 r => 55%N :: uint_digits r | D8 r => 56%N :: uint_digits r
  | D9 r => 57%N :: uint_digits r
  end.
Definition dec (n : nat) : str := uint_digits (Nat.to_uint n).

Fixpoint number_from (i : nat) (metaprefix : str) (ups : list str) : list record :=
  match ups with
  | [] => []
  | up :: rest => {| r_prefix := metaprefix ++ dec i; r_uri := up; r_psyn := []; r_usyn := []; r_pat := None |}
                  :: number_from (S i) metaprefix rest
  end.

(* cutoff: None = no cutoff *)
Definition kept_prefixes (cutoff : option nat) (d : dict (list str)) : list str :=
  map fst (filter (fun kv => match cutoff with None => true | Some k => Nat.leb k (length (snd kv)) end)
                  (sort_by_key fst d)).

Definition discover_records (recog : str -> bool) (delims : list str) (cutoff : option nat) (metaprefix : str)
  (uris : list str) : list record :=
  number_from 1 metaprefix (kept_prefixes cutoff (uri_prefix_to_luids recog delims uris)).

Definition discover recog delims cutoff metaprefix uris : res conv :=
  mk_conv true [58%N] (discover_records recog delims cutoff metaprefix uris).
End D.
(* the recogniser of an optional pre-existing converter *)
Definition recog_of (known : option conv) : str -> bool :=
  fun u => match known with Some c => is_uri c u | None => false end.

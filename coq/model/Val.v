(* Generic value type for cases and observations, with encoders / decoders.  No proofs here. *)
From Coq Require Export ZArith.
From Curies.model Require Export Conv.

Inductive val := VInt (z : Z) | VStr (s : str) | VList (l : list val) | VNone | VSome (v : val).

(* Wildcard: the harness replaces the answers that a check does not look at (queries its property does not speak about)
   by this token; it compares equal to everything.  Code point 0x110000 is not a character of any Python string, and
   the model never produces it. *)
Definition is_wild (v : val) : bool := match v with VStr [n] => N.eqb n 1114112 | _ => false end.
Fixpoint val_eqb (a b : val) {struct a} : bool :=
  if is_wild a || is_wild b then true else
  match a, b with
  | VInt x, VInt y => Z.eqb x y
  | VStr x, VStr y => str_eqb x y
  | VNone, VNone => true
  | VSome x, VSome y => val_eqb x y
  | VList x, VList y =>
      (fix go (x y : list val) : bool :=
         match x, y with
         | [], [] => true
         | a :: x', b :: y' => val_eqb a b && go x' y'
         | _, _ => false
         end) x y
  | _, _ => false
  end.

Definition vbool (b : bool) : val := VInt (if b then 1 else 0)%Z.
Definition vnat (n : nat) : val := VInt (Z.of_nat n).
Definition vstrs (l : list str) : val := VList (map VStr l).
Definition vopt {A} (f : A -> val) (o : option A) : val := match o with Some a => VSome (f a) | None => VNone end.
Definition vpair (a b : val) : val := VList [a; b].
Definition vref (r : str * str) : val := VList [VStr (fst r); VStr (snd r)].
Definition vdict (d : dict str) : val :=
  VList (map (fun kv => vpair (VStr (fst kv)) (VStr (snd kv))) (sort_by_key fst d)).
Definition vrecord (r : record) : val :=
  VList [VStr (r_prefix r); VStr (r_uri r); vstrs (r_psyn r); vstrs (r_usyn r); vopt VStr (r_pat r)].

(* outcome of a call: value / library ValueError family / any other exception *)
Definition lib_value_error (e : err) : bool :=
  match e with
  | ENoCURIEDelimiter | EExpansion | ECompression | EPrefixStd | EIdentifierStd | ECURIEStd | EURIStd => true
  | _ => false
  end.
Definition vres {A} (f : A -> val) (r : res A) : val :=
  match r with
  | Val a => VList [VInt 0; f a]
  | Raise e => if lib_value_error e then VList [VInt 1] else VList [VInt 2]
  end.

(* decoders *)
Definition as_str (v : val) : option str := match v with VStr s => Some s | _ => None end.
Definition as_int (v : val) : option Z := match v with VInt z => Some z | _ => None end.
Definition as_bool (v : val) : option bool := match v with VInt z => Some (negb (Z.eqb z 0)) | _ => None end.
Definition as_list (v : val) : option (list val) := match v with VList l => Some l | _ => None end.
Fixpoint all_some {A} (l : list (option A)) : option (list A) :=
  match l with
  | [] => Some []
  | Some a :: l' => match all_some l' with Some r => Some (a :: r) | None => None end
  | None :: _ => None
  end.
Definition as_list_of {A} (f : val -> option A) (v : val) : option (list A) :=
  match v with VList l => all_some (map f l) | _ => None end.
Definition as_strs := as_list_of as_str.
Definition as_opt {A} (f : val -> option A) (v : val) : option (option A) :=
  match v with VNone => Some None | VSome x => match f x with Some a => Some (Some a) | None => None end | _ => None end.
Definition as_record (v : val) : option record :=
  match v with
  | VList [VStr p; VStr u; ps; us; pat] =>
      match as_strs ps, as_strs us, as_opt as_str pat with
      | Some ps', Some us', Some pat' => Some {| r_prefix := p; r_uri := u; r_psyn := ps'; r_usyn := us'; r_pat := pat' |}
      | _, _, _ => None
      end
  | _ => None
  end.
Definition as_records := as_list_of as_record.

(* C09 / C11 / C12: derivations (chain, get_subconverter, remap_curie_prefixes, remap_uri_prefixes, rewire):
   case decoding, model observation, executable predicates.  No proofs here. *)
From Curies.model Require Export Reconcile Spec CheckQ CheckM Loaders CheckL.

Inductive dop :=
| DChain (sens : bool)
| DSub (P : list str)
| DRemapCurie (m : list (str * str))
| DRemapUri (m : list (str * str))
| DRewire (m : list (str * str)).

Record rcase := { rc_inputs : list (list record); rc_op : dop; rc_strs : list str; rc_pairs : list (str * str);
                  rc_fold : list (chr * str) }.

Definition decode_dop (v : val) : option dop :=
  match v with
  | VList [VInt 0; VInt b] => Some (DChain (negb (Z.eqb b 0)))
  | VList [VInt 1; p] => option_map DSub (as_strs p)
  | VList [VInt 2; m] => option_map DRemapCurie (as_list_of as_pair_str m)
  | VList [VInt 3; m] => option_map DRemapUri (as_list_of as_pair_str m)
  | VList [VInt 4; m] => option_map DRewire (as_list_of as_pair_str m)
  | _ => None
  end.
Definition decode_rcase (v : val) : option rcase :=
  match v with
  | VList (ins :: op :: ss :: ps :: ft :: _) =>        (* a sixth element says how the harness built the input converters; ignored *)
      match as_list_of as_records ins, decode_dop op, as_strs ss, as_list_of as_pair_str ps, as_list_of as_fold_entry ft with
      | Some ins', Some op', Some ss', Some ps', Some ft' =>
          Some {| rc_inputs := ins'; rc_op := op'; rc_strs := ss'; rc_pairs := ps'; rc_fold := ft' |}
      | _, _, _, _, _ => None
      end
  | _ => None
  end.

(* outcome codes *)
Definition derive_code {A} (r : res A) : Z :=
  match r with
  | Val _ => 0 | Raise EValueError => 1
  | Raise EDuplicateKeys => 11 | Raise EDuplicateValues => 12 | Raise EInconsistentMapping => 13 | Raise ECycleDetected => 14
  | Raise ETransitive => 15 | Raise EDuplicateURIPrefixes => 21 | Raise EDuplicatePrefixes => 22 | Raise _ => 2
  end%Z.

Definition input_convs (k : rcase) : res (list conv) := sequence (map (mk_conv true [58%N]) (rc_inputs k)).

Definition derive (k : rcase) (cs : list conv) : res conv :=
  match rc_op k, cs with
  | DChain sens, _ => chain (fold_of (rc_fold k)) cs sens
  | DSub P, c :: _ => get_subconverter c P
  | DRemapCurie m, c :: _ => remap_curie_prefixes c m
  | DRemapUri m, c :: _ => remap_uri_prefixes c m
  | DRewire m, c :: _ => rewire c m
  | _, [] => Raise EOther
  end.

Definition rbattery (k : rcase) : list query := battery (rc_strs k) (rc_pairs k).

(* observation: [code; answers of the result; for rewire: records of rewire(rewire(c))] *)
Definition model_robs (k : rcase) : val :=
  match input_convs k with
  | Raise _ => VList [VInt (-3)]
  | Val cs =>
      match derive k cs with
      | Raise e => VList [VInt (derive_code (@Raise conv e)); VList []; VList []]
      | Val R =>
          let twice := match rc_op k with
                       | DRewire m => match rewire R m with
                                      | Val R2 => VList (map vrecord (sort_records (recs R2)))
                                      | Raise _ => VList [VInt (-1)] end
                       | _ => VList []
                       end in
          VList [VInt 0; VList (map (answer R) (rbattery k)); twice]
      end
  end.

(* ---- helpers on record collections (naive) ---- *)
Definition known_prefix (rs : list record) (p : str) : bool := existsb (fun r => mem p (all_prefixes r)) rs.
Definition known_uri (rs : list record) (u : str) : bool := existsb (fun r => mem u (all_uris r)) rs.
Definition all_p (rs : list record) : list str := flat_map all_prefixes rs.
Definition all_u (rs : list record) : list str := flat_map all_uris rs.
Definition subset (a b : list str) : bool := forallb (fun x => mem x b) a.
Definition same_record_p (rs : list record) (a b : str) : bool := existsb (fun r => mem a (all_prefixes r) && mem b (all_prefixes r)) rs.
Definition same_record_u (rs : list record) (a b : str) : bool := existsb (fun r => mem a (all_uris r) && mem b (all_uris r)) rs.
Definition owner_u (rs : list record) (u : str) : option record := List.find (fun r => mem u (all_uris r)) rs.

Definition result_records (k : rcase) (answers : list val) : option (list record) :=
  match find_obs (fun q => match q with QRecords => true | _ => false end) (combine (rbattery k) answers) with
  | Some (VList [VInt 0; rs]) => as_records rs
  | _ => None
  end.
(* the result is a consistent strict converter: C04 / C05 *)
Definition result_consistent (k : rcase) (rs : list record) (answers : list val) : bool :=
  strictb rs &&
  forallb (fun qv => if all_conv_queries (fst qv) then val_eqb (snd qv) (spec_answer rs [58%N] (fst qv)) else true)
          (combine (rbattery k) answers).

(* ---- C09 ---- *)
(* Naive specification of the outcome code of chain(converters, case_sensitive=sens), on record lists only (no converter, no
   index): chain starts from no record at all and calls add_record(record, case_sensitive=sens, merge=True) for every record
   of every input, in order; one call is CheckM.spec_step (the naive one-step specification of C05): it is rejected (code 1)
   exactly when the record matches two or more of the records accumulated so far; with exactly one match it is merged into it,
   with none it is appended.  The code of chain is 1 as soon as one call is rejected, and also 1 when there is no input
   converter at all; otherwise 0.  The inputs reach chain as converters, whose records are sorted by canonical prefix:
   the records of one input are taken in that order. *)
Definition chain_op (sens : bool) (r : record) : mop := {| op_rec := r; op_cs := sens; op_mg := true; op_ap := false |}.
Fixpoint spec_absorb_code (fc : chr -> str) (sens : bool) (acc todo : list record) : Z :=
  match todo with
  | [] => 0%Z
  | r :: rest => let '(code, acc') := spec_step fc acc (chain_op sens r) in
                 if Z.eqb code 0 then spec_absorb_code fc sens acc' rest else 1%Z
  end.
Definition spec_chain_code (fc : chr -> str) (ins : list (list record)) (sens : bool) : Z :=
  match ins with
  | [] => 1%Z
  | _ => spec_absorb_code fc sens [] (flat_map sort_records ins)
  end.

Definition P_chain (k : rcase) (sens : bool) (code : Z) (answers : list val) : bool :=
  let ins := rc_inputs k in
  let fc := fold_of (rc_fold k) in
  (* ValueError exactly when the specification says so: a record matches two or more accumulated records (or no input) *)
  if Z.eqb code 1 then Z.eqb (spec_chain_code fc ins sens) 1
  else if negb (Z.eqb code 0) then false
  else match result_records k answers with
  | None => false
  | Some R =>
      Z.eqb (spec_chain_code fc ins sens) 0
      && result_consistent k R answers
      (* exactly the union: nothing lost, nothing invented *)
      && subset (flat_map all_p ins) (all_p R) && subset (all_p R) (flat_map all_p ins)
      && subset (flat_map all_u ins) (all_u R) && subset (all_u R) (flat_map all_u ins)
      (* what shared a record in an input shares a record in the result *)
      && forallb (fun rs => forallb (fun r => forallb (fun a => same_record_p R (r_prefix r) a) (all_prefixes r)
                                              && forallb (fun a => same_record_u R (r_uri r) a) (all_uris r)
                                              && match owner_by_prefix R (r_prefix r), owner_u R (r_uri r) with
                                                 | Some x, Some y => str_eqb (r_prefix x) (r_prefix y)
                                                 | _, _ => false end) rs) ins
      (* case-sensitive: the first converter's answers win *)
      && (if sens then
            match ins with
            | c1 :: _ => forallb (fun r => forallb (fun p => match owner_by_prefix R p with
                                                             | Some x => str_eqb (r_uri x) (r_uri r) && str_eqb (r_prefix x) (r_prefix r)
                                                             | None => false end) (all_prefixes r)) c1
            | [] => true end
            (* chain([c]) is equivalent to c *)
            && match ins with
               | [c] => val_eqb (norm_records R) (norm_records c)
               | _ => true end
          else
            (* no two records of the result hold prefixes equal up to case *)
            forallb (fun r1 => forallb (fun r2 => str_eqb (r_prefix r1) (r_prefix r2) ||
                       negb (existsb (fun a => existsb (fun b => str_eqb (casefold fc a) (casefold fc b)) (all_prefixes r2)) (all_prefixes r1))) R) R)
  end.
Definition P_sub (k : rcase) (P : list str) (code : Z) (answers : list val) : bool :=
  match rc_inputs k, result_records k answers with
  | c :: _, Some R =>
      Z.eqb code 0 && result_consistent k R answers
      && val_eqb (norm_records R) (norm_records (filter (fun r => existsb (fun p => mem p P) (all_prefixes r)) c))
  | _, _ => false
  end.
Definition P_C09 (k : rcase) (o : val) : bool :=
  match o, rc_op k with
  | VList [VInt code; VList answers; _], DChain sens => P_chain k sens code answers
  | VList [VInt code; VList answers; _], DSub P => P_sub k P code answers
  | _, _ => false
  end.

(* ---- C11 ---- *)
(* Naive specification of the documented validation of remap_curie_prefixes(converter, remapping), on the record list and the
   remapping alone (no converter, no index, no grouping, no ordering).  A string NAMES the record that lists it as its CURIE
   prefix or as one of its CURIE prefix synonyms (Spec.owner_by_prefix); a string that no record lists names nothing.  Records
   are told apart by their canonical CURIE prefix.  The checks, in the documented order:
     11 DuplicateKeys         two pairs of the remapping (they have different keys: the remapping is a dictionary) whose KEYS
                              name the same record;
     12 DuplicateValues       two pairs of the remapping whose VALUES name the same record (the same known string used as the
                              value of two pairs counts; unknown values never count);
     13 InconsistentMapping   two different strings naming the same record among: all the keys, and the values of those pairs
                              whose value does not name the record named by the pair's own key ("synonym remappings are not
                              penalised");
     14 CycleDetected         following key -> value from some key comes back to that key (after 1 .. |remapping| steps);
   otherwise no error. *)
Definition names_same (rs : list record) (a b : str) : bool :=
  match owner_by_prefix rs a, owner_by_prefix rs b with
  | Some x, Some y => str_eqb (r_prefix x) (r_prefix y)
  | _, _ => false
  end.
Definition two_pairs_same (rs : list record) (sel : str * str -> str) (m : list (str * str)) : bool :=
  existsb (fun x => existsb (fun y => negb (str_eqb (fst x) (fst y)) && names_same rs (sel x) (sel y)) m) m.
Definition remap_names (rs : list record) (m : list (str * str)) : list str :=
  map fst m ++ map snd (filter (fun kv => negb (names_same rs (fst kv) (snd kv))) m).
Definition two_names_same (rs : list record) (l : list str) : bool :=
  existsb (fun a => existsb (fun b => negb (str_eqb a b) && names_same rs a b) l) l.
(* n steps key -> value starting from s; None when a string that is not a key is reached before *)
Fixpoint follow (m : list (str * str)) (n : nat) (s : str) : option str :=
  match n with
  | O => Some s
  | S n' => match dget s m with Some v => follow m n' v | None => None end
  end.
Definition remap_cycle (m : list (str * str)) : bool :=
  existsb (fun k => existsb (fun n => match follow m (S n) k with Some s => str_eqb s k | None => false end)
                            (seq 0 (length m))) (map fst m).
Definition spec_remap_error (rs : list record) (m : list (str * str)) : option Z :=
  if two_pairs_same rs fst m then Some 11%Z
  else if two_pairs_same rs snd m then Some 12%Z
  else if two_names_same rs (remap_names rs m) then Some 13%Z
  else if remap_cycle m then Some 14%Z
  else None.

Definition P_C11 (k : rcase) (o : val) : bool :=
  match o, rc_op k, rc_inputs k with
  | VList [VInt code; VList answers; _], DRemapCurie m, c :: _ =>
      match spec_remap_error c m with
      | Some e => Z.eqb code e          (* rejected exactly when the specification says so, with exactly that error *)
      | None =>
      if negb (Z.eqb code 0) then false
      else match result_records k answers with
      | None => false
      | Some R =>
          result_consistent k R answers
          && Nat.eqb (length R) (length c)
          (* every record keeps exactly its URI prefixes and its canonical URI prefix *)
          && forallb (fun r => match owner_u R (r_uri r) with
                               | Some r' => str_eqb (r_uri r') (r_uri r) && set_eqb (r_usyn r') (r_usyn r)
                               | None => false end) c
          (* every CURIE prefix known before is still known *)
          && subset (all_p c) (all_p R)
          (* nothing is invented: every prefix of the result is an old prefix or a value of the remapping *)
          && subset (all_p R) (all_p c ++ map snd m)
          (* a pair old->new with old known and new unused (and not the target of another pair) renames old's record; new may itself
             be a key: its own pair comes earlier in the ordering, when new is still unknown, and is skipped *)
          && forallb (fun on => let '(old, new) := on in
               if known_prefix c old && negb (known_prefix c new)
                  && Nat.eqb (length (filter (str_eqb new) (map snd m))) 1
               then match owner_by_prefix c old, owner_by_prefix R new with
                    | Some r, Some r' => str_eqb (r_uri r) (r_uri r') && str_eqb (r_prefix r') new
                    | _, _ => false end
               else true) m
          (* a pair whose new prefix belongs to another record (and is not itself remapped away) changes nothing there *)
          && forallb (fun on => let '(old, new) := on in
               match owner_by_prefix c old, owner_by_prefix c new with
               | Some r, Some r2 =>
                   if negb (str_eqb (r_prefix r) (r_prefix r2)) && negb (existsb (fun k' => mem k' (all_prefixes r2)) (map fst m))
                   then match owner_by_prefix R new with Some x => str_eqb (r_uri x) (r_uri r2) | None => false end
                   else true
               | _, _ => true end) m
      end
      end
  | _, _, _ => false
  end.

(* ---- C12 ---- *)
Definition injective_map (m : list (str * str)) : bool := nodup_str (map snd m).
Definition P_repoint (k : rcase) (c R : list record) (m : list (str * str)) (by_curie : bool) : bool :=
  Nat.eqb (length R) (length c) &&
  forallb (fun r =>
    match owner_by_prefix R (r_prefix r) with
    | None => false
    | Some r' =>
        (* identical CURIE prefixes and synonyms *)
        str_eqb (r_prefix r') (r_prefix r) && set_eqb (r_psyn r') (r_psyn r)
        (* keeps every URI prefix it had *)
        && subset (all_uris r) (all_uris r')
        && (let hit := first_hit (if by_curie then all_prefixes r else all_uris r) m in
            match hit with
            | None => str_eqb (r_uri r') (r_uri r) && set_eqb (r_usyn r') (r_usyn r)          (* untouched *)
            | Some n =>
                (* gains at most the mapped new one *)
                subset (all_uris r') (n :: all_uris r)
                && (if str_eqb n (r_uri r) then str_eqb (r_uri r') (r_uri r) && set_eqb (r_usyn r') (r_usyn r)
                    else if known_uri c n && negb (mem n (all_uris r))
                    then str_eqb (r_uri r') (r_uri r) && set_eqb (r_usyn r') (r_usyn r)       (* owned by another: untouched *)
                    else str_eqb (r_uri r') n && mem (r_uri r) (r_usyn r'))                   (* becomes canonical, old one a synonym *)
            end)
    end) c.
Definition P_C12 (k : rcase) (o : val) : bool :=
  match o, rc_op k, rc_inputs k with
  | VList [VInt code; VList answers; twice], DRemapUri m, c :: _ =>
      let transitive := negb (is_nil (inter (map fst m) (map snd m))) in
      if transitive then Z.eqb code 15
      else if negb (injective_map m) then true
      else Z.eqb code 0 &&
           match result_records k answers with
           | Some R => result_consistent k R answers && P_repoint k c R m false
           | None => false end
  | VList [VInt code; VList answers; twice], DRewire m, c :: _ =>
      if negb (injective_map m) then true
      else Z.eqb code 0 &&
           match result_records k answers with
           | Some R => result_consistent k R answers && P_repoint k c R m true
                       && val_eqb twice (VList (map vrecord (sort_records R)))          (* applying it twice = once *)
           | None => false end
  | _, _, _ => false
  end.

Definition valid_r (k : rcase) : bool :=
  forallb strict_okb (rc_inputs k) &&
  match rc_op k with
  | DChain _ => true
  | DSub _ => negb (is_nil (rc_inputs k))
  | DRemapCurie m | DRemapUri m | DRewire m => negb (is_nil (rc_inputs k)) && nodup_str (map fst m)
  end.

Definition run_derive (prop : Z) (case obs : val) : val :=
  match decode_rcase case with
  | None => VList [VInt (-1)]
  | Some k =>
      let m := model_robs k in
      let same := val_eqb m obs in
      let P := if (prop =? 9)%Z then P_C09 k else if (prop =? 11)%Z then P_C11 k else P_C12 k in
      VList [vbool same; vbool (valid_r k); vbool (P m); vbool (P obs); if same then VList [] else m]
  end.

(* ---- C10: the inputs are re-observed after the derivation and after every follow-up step on the result ----
   Observation: [code; per step: per input 1 (snapshot equal to the one taken before the call) / 0; shared]
   where shared = 1 iff the result holds a Record object that also belongs to an input.  At value level nothing can
   change, so the model's observation is "all equal, nothing shared"; the object-level statement is model/Heap.v. *)
Definition run_inputs_unchanged (case obs : val) : val :=
  match case with
  | VList [VList (ins :: op :: ss :: ps :: ft :: _); VInt nsteps; VInt is_discover; _] =>
      match decode_rcase (VList [ins; op; ss; ps; ft]) with
      | None => VList [VInt (-1)]
      | Some k =>
          let code := if Z.eqb is_discover 0
                      then match input_convs k with
                           | Val cs => derive_code (derive k cs)
                           | Raise _ => (-3)%Z end
                      else 0%Z in
          let n := length (rc_inputs k) in
          let steps := if Z.eqb code 0 then Z.to_nat nsteps else 1%nat in
          let m := VList [VInt code; VList (repeat (VList (repeat (VInt 1) n)) steps); VInt 0] in
          let same := val_eqb m obs in
          let P := fun o => match o with
                            | VList [VInt c; VList st; VInt sh] =>
                                Z.eqb sh 0 && forallb (fun s => match s with VList fl => forallb (val_eqb (VInt 1)) fl | _ => false end) st
                                && Nat.eqb (length st) steps
                            | _ => false end in
          VList [vbool same; vbool (valid_r k || negb (Z.eqb is_discover 0)); vbool (P m); vbool (P obs); if same then VList [] else m]
      end
  | _ => VList [VInt (-1)]
  end.

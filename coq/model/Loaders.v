(* The loaders: input format -> records (then Converter(records)).  Inputs are abstract data:
   insertion-ordered dicts as item lists, JSON-LD terms as a 3-constructor type.  No proofs here. *)
From Curies.model Require Export Conv.

Fixpoint sequence {A} (l : list (res A)) : res (list A) :=
  match l with
  | [] => Val []
  | x :: rest => bind x (fun a => bind (sequence rest) (fun r => Val (a :: r)))
  end.

(* from_prefix_map *)
Definition records_of_prefix_map (pm : list (str * str)) : res (list record) :=
  sequence (map (fun pu => mk_record (fst pu) (snd pu) [] [] None) pm).

(* from_priority_prefix_map: uri_prefixes[0] canonical, the rest synonyms; an empty list is an IndexError *)
Definition records_of_priority_map (pm : list (str * list str)) : res (list record) :=
  sequence (map (fun pu => match snd pu with
                           | [] => Raise EIndexError
                           | u :: us => mk_record (fst pu) u [] us None end) pm).

(* from_reverse_prefix_map: group by CURIE prefix (first-seen order), sorted(key=len) stable *)
Definition group_by_value (rpm : list (str * str)) : dict (list str) :=
  fold_left (fun d up => dappend (snd up) (fst up) d) rpm [].
Definition records_of_reverse_map (rpm : list (str * str)) : res (list record) :=
  sequence (map (fun pus => match sort_by_len (@length chr) (snd pus) with
                            | [] => Raise EIndexError
                            | u :: us => mk_record (fst pus) u [] us None end) (group_by_value rpm)).

(* from_extended_prefix_map: one Record per dictionary *)
Definition records_of_epm (rs : list record) : res (list record) :=
  sequence (map (fun r => mk_record (r_prefix r) (r_uri r) (r_psyn r) (r_usyn r) (r_pat r)) rs).

(* from_jsonld *)
Inductive term := TStr (s : str) | TPrefix (id : str) | TOther.
(* not key -> skipped with a warning; key.startswith("@") -> skipped *)
Definition jsonld_key_ok (k : str) : bool := match k with [] => false | c :: _ => negb (N.eqb c 64) end.
Definition jsonld_prefix_map (ctx : list (str * term)) : list (str * str) :=
  fold_left (fun pm kt =>
    if jsonld_key_ok (fst kt)
    then match snd kt with TStr s => dset (fst kt) s pm | TPrefix id => dset (fst kt) id pm | TOther => pm end
    else pm) ctx [].
Definition records_of_jsonld (ctx : list (str * term)) : res (list record) := records_of_prefix_map (jsonld_prefix_map ctx).

(* upgrade_prefix_map: group CURIE prefixes by URI prefix; sorted prefixes: first canonical; groups sorted by URI prefix *)
Definition group_by_uri (pm : list (str * str)) : dict (list str) :=
  fold_left (fun d pu => dappend (snd pu) (fst pu) d) pm [].
Definition upgrade_prefix_map (pm : list (str * str)) : res (list record) :=
  sequence (map (fun ups => match sort_str (snd ups) with
                            | [] => Raise EIndexError
                            | p :: ps => mk_record p (fst ups) ps [] None end)
                (sort_by_key fst (group_by_uri pm))).

Definition load (strict : bool) (d : str) (rs : res (list record)) : res conv := bind rs (mk_conv strict d).

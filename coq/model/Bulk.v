(* pd_* and file_* bulk operations: element-wise application of a scalar method; two-phase file rewrite.
   pandas (dtype / NA handling) and csv (quoting) are runtime.  No proofs here. *)
From Curies.model Require Export Query Spec CheckQ.

Inductive bfun := BCompress | BExpand | BStdPrefix | BStdCurie | BStdUri.
(* the scalar method a bulk operation uses, with its flags *)
Definition scalar (c : conv) (f : bfun) (strict pass ambiguous : bool) (x : str) : res (option str) :=
  match f with
  | BCompress => if ambiguous then compress_or_standardize c x strict pass else compress c x strict pass
  | BExpand => if ambiguous then expand_or_standardize c x strict pass else expand c x strict pass
  | BStdPrefix => standardize_prefix c x strict pass
  | BStdCurie => standardize_curie c x strict pass
  | BStdUri => standardize_uri c x strict pass
  end.

(* df[column].map(func): stops at the first cell that raises *)
Fixpoint map_res {A B} (f : A -> res B) (l : list A) : res (list B) :=
  match l with
  | [] => Val []
  | x :: t => match f x with
              | Raise e => Raise e
              | Val y => match map_res f t with Val ys => Val (y :: ys) | Raise e => Raise e end
              end
  end.

Fixpoint set_nth {A} (n : nat) (v : A) (l : list A) : option (list A) :=
  match n, l with
  | O, _ :: t => Some (v :: t)
  | S k, x :: t => match set_nth k v t with Some t' => Some (x :: t') | None => None end
  | _, [] => None
  end.

(* The bulk operations are generic in the scalar function they apply: C16 says "bulk = element-wise application of the scalar
   method", whatever that method answers (its own correctness is C01-C08). *)
Section Generic.
Variable sc : str -> res (option str).

(* a data frame: rows of optional cells (None = NA); pd_f writes the mapped column into `target` (default: the source) *)
Definition pd_apply_g (rows : list (list (option str))) (col target : nat) : res (list (list (option str))) :=
  match map_res (fun row => match nth_error row col with
                            | Some (Some x) => sc x
                            | _ => Raise EOther end) rows with
  | Raise e => Raise e
  | Val vals => Val (map (fun rv => match set_nth target (snd rv) (fst rv) with Some r => r | None => fst rv ++ [snd rv] end)
                         (combine rows vals))
  end.

(* _file_helper: read every row and convert; only then write.  A short row is an IndexError. *)
Definition file_rows_g (rows : list (list str)) (col : nat) : res (list (list str)) :=
  map_res (fun row => match nth_error row col with
                      | None => Raise EIndexError
                      | Some x => match sc x with
                                  | Raise e => Raise e
                                  | Val v => match set_nth col (match v with Some y => y | None => [] end) row with
                                             | Some r => Val r | None => Raise EIndexError end
                                  end
                      end) rows.
(* the file after the call: unchanged when anything raised *)
Definition file_after_g (header : option (list str)) (rows : list (list str)) (col : nat)
  : res unit * (option (list str) * list (list str)) :=
  match file_rows_g rows col with
  | Val rows' => (Val tt, (header, rows'))
  | Raise e => (Raise e, (header, rows))
  end.
End Generic.

(* the library's instances *)
Definition pd_apply (c : conv) (f : bfun) (strict pass ambiguous : bool) := pd_apply_g (scalar c f strict pass ambiguous).
Definition file_rows (c : conv) (f : bfun) (strict pass ambiguous : bool) := file_rows_g (scalar c f strict pass ambiguous).
Definition file_after (c : conv) f strict pass ambiguous := file_after_g (scalar c f strict pass ambiguous).

(* ---- driver entry ----
   case = [records; delimiter; fn tag; [strict; pass; ambiguous]; rows; col; target or -1; header opt; mode (0 pandas / 1 file); table]
          table = what the implementation's own scalar method (the one C16_scalar names for this operation and these flags) answers on
          every cell of the chosen column: [[x; [0; opt str] | [1] | [2]]; ...]  -- "element-wise" is judged against these answers
   obs  = pandas: [0; rows with optional cells] | [1] | [2]     file: [code; header opt; rows] (the file as found on disk afterwards) *)
Definition bfun_of (z : Z) : bfun := (if z =? 0 then BCompress else if z =? 1 then BExpand else if z =? 2 then BStdPrefix else if z =? 3 then BStdCurie else BStdUri)%Z.
Definition vcell (o : option str) : val := vopt VStr o.
Definition err_code (e : err) : Z := if lib_value_error e then 1 else 2.
Definition as_outcome (v : val) : option (res (option str)) :=
  match v with
  | VList [VInt 0; VNone] => Some (Val None)
  | VList [VInt 0; VSome (VStr y)] => Some (Val (Some y))
  | VList [VInt 1] => Some (Raise ECompression)       (* a library ValueError; only the family is observed *)
  | VList [VInt 2] => Some (Raise EOther)
  | _ => None
  end.
Definition as_table (v : val) : option (list (str * res (option str))) :=
  as_list_of (fun e => match e with VList [VStr x; o] => option_map (pair x) (as_outcome o) | _ => None end) v.
Definition tbl_lookup (t : list (str * res (option str))) (x : str) : res (option str) :=
  match List.find (fun e => str_eqb x (fst e)) t with Some e => snd e | None => Raise EOther end.
Definition tbl_covers (t : list (str * res (option str))) (rows : list (list str)) (col : nat) : bool :=
  forallb (fun row => match nth_error row col with Some x => existsb (fun e => str_eqb x (fst e)) t | None => true end) rows.
Definition bulk_obs (sc : str -> res (option str)) (mode col target : Z) (header : option (list str)) (rows : list (list str)) : val :=
  if Z.eqb mode 0 then
    match pd_apply_g sc (map (map Some) rows) (Z.to_nat col) (if (target <? 0)%Z then Z.to_nat col else Z.to_nat target) with
    | Val t => VList [VInt 0; VList (map (fun r => VList (map vcell r)) t)]
    | Raise e => VList [VInt (err_code e)]
    end
  else
    let '(r, (h, t)) := file_after_g sc header rows (Z.to_nat col) in
    VList [VInt (match r with Val _ => 0 | Raise EIndexError => 3 | Raise e => err_code e end); vopt vstrs h; VList (map vstrs t)].
Definition run_bulk (case obs : val) : val :=
  match case with
  | VList (rs :: VStr d :: VInt tag :: VList [VInt st; VInt pa; VInt am] :: rows :: VInt col :: VInt target :: header :: VInt mode :: tbl :: _) =>
      (* an eleventh element (how the harness staged the call: warm-up on a smaller converter first) is not the model's business *)
      match as_list_of as_strs rows, as_opt as_strs header, as_table tbl with
      | Some rows', Some header', Some t =>
          let m := bulk_obs (tbl_lookup t) mode col target header' rows' in
          let same := val_eqb m obs in
          let valid := tbl_covers t rows' (Z.to_nat col) in
          VList [vbool same; vbool valid; VInt 1; vbool same; if same then VList [] else m]
      | _, _, _ => VList [VInt (-1)]
      end
  | _ => VList [VInt (-1)]
  end.

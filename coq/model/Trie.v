(* The algorithm of pytrie.StringTrie as curies uses it: __setitem__ and longest_prefix_item.  No proofs here. *)
From Curies.model Require Export Str.

Section T.
Variable V : Type.
Inductive trie := Node : option V -> forest -> trie
with forest := FNil | FCons : chr -> trie -> forest -> forest.

Definition empty := Node None FNil.

Fixpoint singleton (key : str) (v : V) : trie :=
  match key with [] => Node (Some v) FNil | c :: r => Node None (FCons c (singleton r v) FNil) end.

(* trie[key] = v *)
Fixpoint insert (key : str) (v : V) (t : trie) {struct t} : trie :=
  match t with Node x f =>
    match key with
    | [] => Node (Some v) f
    | c :: r => Node x (insert_f c r v f)
    end end
with insert_f (c : chr) (r : str) (v : V) (f : forest) {struct f} : forest :=
  match f with
  | FNil => FCons c (singleton r v) FNil
  | FCons c' t' f' => if N.eqb c c' then FCons c' (insert r v t') f' else FCons c' t' (insert_f c r v f')
  end.

Fixpoint find (key : str) (t : trie) {struct t} : option V :=
  match t with Node x f => match key with [] => x | c :: r => find_f c r f end end
with find_f c r f {struct f} :=
  match f with FNil => None | FCons c' t' f' => if N.eqb c c' then find r t' else find_f c r f' end.

(* trie.longest_prefix_item(key): (length of the matched key, value); None = KeyError *)
Fixpoint lpi (key : str) (t : trie) {struct t} : option (nat * V) :=
  match t with Node x f =>
    let here := match x with Some v => Some (0, v) | None => None end in
    match key with
    | [] => here
    | c :: r => match lpi_f c r f with Some (n, v) => Some (S n, v) | None => here end
    end end
with lpi_f c r f {struct f} : option (nat * V) :=
  match f with FNil => None | FCons c' t' f' => if N.eqb c c' then lpi r t' else lpi_f c r f' end.
End T.
Arguments Node {V}. Arguments FNil {V}. Arguments FCons {V}.
Arguments empty {V}. Arguments insert {V}. Arguments find {V}. Arguments lpi {V}.
Arguments insert_f {V}. Arguments find_f {V}. Arguments lpi_f {V}. Arguments singleton {V}.
Arguments find : simpl never. Arguments find_f : simpl never. Arguments insert : simpl never. Arguments insert_f : simpl never.
Arguments lpi : simpl never. Arguments lpi_f : simpl never. Arguments singleton : simpl never.

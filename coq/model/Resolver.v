(* curies.resolver_service: the handler (identical for Flask and FastAPI) and the route contract.  No proofs here. *)
From Curies.model Require Export Query Spec CheckQ.

Inductive response := Redirect302 (location : str) | Status (code : N) | NotFound404.

Definition failure_code : N := 422.
Definition has_slash (s : str) : bool := existsb (N.eqb 47) s.

(* GET /<rest>.  Route: /<prefix><delimiter><path:identifier> with a non-empty slash-free prefix and a non-empty
   identifier (Werkzeug / Starlette routing is runtime; this is its documented contract on such paths);
   the handler re-splits prefix+delimiter+identifier at the FIRST delimiter and calls expand_pair. *)
Definition resolve (c : conv) (rest : str) : response :=
  match partition (delim c) rest with
  | None => NotFound404
  | Some (p, i) =>
      if is_nil p || has_slash p || is_nil i then NotFound404
      else match expand_pair c p i false false with
           | Val (Some loc) => Redirect302 loc
           | _ => Status failure_code
           end
  end.

Definition vresponse (r : response) : val :=
  match r with
  | Redirect302 l => VList [VInt 302; VStr l]
  | Status n => VList [VInt (Z.of_N n); VStr []]
  | NotFound404 => VList [VInt 404; VStr []]
  end.

(* case = [records; delimiter; list of request paths (without the leading '/'); what converter.expand(path) answers for
          each path on the implementation (None or the URI) -- "redirects to the result of converter.expand" is judged against it];
   obs = per request [flask response; fastapi response] *)
Record wcase := { wc_recs : list record; wc_delim : str; wc_paths : list str; wc_expands : list (option str) }.
Definition decode_wcase (v : val) : option wcase :=
  match v with
  | VList (rs :: VStr d :: ps :: es :: _) =>     (* a fifth element (how the harness staged the requests) is not the model's business *)
      match as_records rs, as_strs ps, as_list_of (as_opt as_str) es with
      | Some rs', Some ps', Some es' => Some {| wc_recs := rs'; wc_delim := d; wc_paths := ps'; wc_expands := es' |}
      | _, _, _ => None end
  | _ => None
  end.

(* the response the property demands, given what expand answers *)
Definition rel_response (d rest : str) (e : option str) : val :=
  match partition d rest with
  | Some _ => match e with Some loc => VList [VInt 302; VStr loc] | None => VList [VInt 422; VStr []] end
  | None => VList [VInt 404; VStr []]
  end.

Definition spec_response (rs : list record) (d rest : str) : val :=
  match partition d rest with
  | Some (p, i) => match owner_by_prefix rs p with
                   | Some r => VList [VInt 302; VStr (r_uri r ++ i)]
                   | None => VList [VInt 422; VStr []] end
  | None => VList [VInt 404; VStr []]
  end.

(* the quantifier of C17: URL-path-safe characters -- RFC 3986 unreserved characters and sub-delimiters ! $ & ' ( ) * + , ; = and @
   (plus the delimiter), non-empty segments, no dot-segments *)
Definition unreserved (c : chr) : bool :=
  ((48 <=? c) && (c <=? 57) || (65 <=? c) && (c <=? 90) || (97 <=? c) && (c <=? 122)
   || (c =? 45) || (c =? 46) || (c =? 95) || (c =? 126)
   || (c =? 33) || (c =? 36) || (38 <=? c) && (c <=? 44) || (c =? 59) || (c =? 61) || (c =? 64))%N.
Fixpoint segments (s : str) (cur : str) : list str :=
  match s with
  | [] => [rev cur]
  | c :: t => if N.eqb c 47 then rev cur :: segments t [] else segments t (c :: cur)
  end.
Definition segment_ok (seg : str) : bool :=
  negb (is_nil seg) && negb (str_eqb seg [46%N]) && negb (str_eqb seg [46; 46]%N).
Definition request_ok (d rest : str) : bool :=
  match partition d rest with
  | Some (p, i) => negb (is_nil p) && negb (has_slash p) && negb (is_nil i)
                   && forallb (fun c => unreserved c || mem [c] [d] || existsb (N.eqb c) d || N.eqb c 47) rest
                   && forallb segment_ok (segments i [])
  | None => false end.
Definition valid_w (k : wcase) : bool :=
  negb (is_nil (wc_delim k)) && forallb (request_ok (wc_delim k)) (wc_paths k) && Nat.eqb (length (wc_expands k)) (length (wc_paths k)).

Definition P_C17 (k : wcase) (o : val) : bool :=
  match o with
  | VList rows =>
      Nat.eqb (length rows) (length (wc_paths k)) &&
      forallb (fun pr => match snd pr with
                         | VList [fl; fa] => val_eqb fl fa && val_eqb fl (rel_response (wc_delim k) (fst (fst pr)) (snd (fst pr)))
                         | _ => false end) (combine (combine (wc_paths k) (wc_expands k)) rows)
  | _ => false
  end.

Definition run_resolver (case obs : val) : val :=
  match decode_wcase case with
  | None => VList [VInt (-1)]
  | Some k =>
      let m := VList (map (fun pe => let r := rel_response (wc_delim k) (fst pe) (snd pe) in VList [r; r]) (combine (wc_paths k) (wc_expands k))) in
      let same := val_eqb m obs in
      VList [vbool same; vbool (valid_w k); vbool (P_C17 k m); vbool (P_C17 k obs); if same then VList [] else m]
  end.

(* Regular expressions with Brzozowski derivatives: the subset of Python's re used by curies.w3c.  No proofs here. *)
From Curies.model Require Export Str.

Section R.
Variable isspace_c : chr -> bool.    (* str.isspace of one code point == the \s class of a str pattern *)

(* character set: negated? ; ranges ; includes the \s category? *)
Record cset := { cs_neg : bool; cs_ranges : list (N * N); cs_space : bool }.
Definition cs_mem (c : chr) (cs : cset) : bool :=
  xorb (cs_neg cs)
       (existsb (fun r => N.leb (fst r) c && N.leb c (snd r)) (cs_ranges cs) || (cs_space cs && isspace_c c)).

Inductive re := Empty | Eps | Chr (cs : cset) | Cat (a b : re) | Alt (a b : re) | Star (a : re).

Fixpoint nullable (r : re) : bool :=
  match r with Empty => false | Eps => true | Chr _ => false
  | Cat a b => nullable a && nullable b | Alt a b => nullable a || nullable b | Star _ => true end.

Fixpoint deriv (c : chr) (r : re) : re :=
  match r with
  | Empty | Eps => Empty
  | Chr cs => if cs_mem c cs then Eps else Empty
  | Cat a b => if nullable a then Alt (Cat (deriv c a) b) (deriv c b) else Cat (deriv c a) b
  | Alt a b => Alt (deriv c a) (deriv c b)
  | Star a => Cat (deriv c a) (Star a)
  end.

(* re.fullmatch *)
Fixpoint fullmatchb (r : re) (s : str) : bool :=
  match s with [] => nullable r | c :: t => fullmatchb (deriv c r) t end.

(* re.match of a pattern that may end in `$`: some prefix matches and, with `$`, the rest is "" or "\n" *)
Definition rest_ok (dollar : bool) (rest : str) : bool :=
  negb dollar || match rest with [] => true | [c] => N.eqb c 10 | _ => false end.
Fixpoint matchb (dollar : bool) (r : re) (s : str) : bool :=
  (nullable r && rest_ok dollar s) || match s with [] => false | c :: t => matchb dollar (deriv c r) t end.

(* which method of the compiled pattern the code calls *)
Inductive re_method := MFullmatch | MMatch.
(* a compiled pattern: leading ^ ?, body, trailing $ ? *)
Record pattern := { pat_caret : bool; pat_body : re; pat_dollar : bool }.
Definition run_pattern (m : re_method) (p : pattern) (s : str) : bool :=
  match m with
  | MFullmatch => fullmatchb (pat_body p) s      (* ^ at 0 and $ at the end hold trivially under fullmatch *)
  | MMatch => matchb (pat_dollar p) (pat_body p) s   (* match anchors at 0, so ^ is redundant *)
  end.
End R.

(* curies.w3c: the two patterns (as read by re._parser) and the three validators.  No proofs here. *)
From Curies.model Require Export Regex Val.

Definition ascii_letter : list (N * N) := [(65, 90); (97, 122)]%N.
Definition cs_start := {| cs_neg := false; cs_ranges := ascii_letter ++ [(95, 95)]%N; cs_space := false |}.
Definition cs_rest := {| cs_neg := false; cs_ranges := ascii_letter ++ [(48, 57); (46, 46); (45, 45); (95, 95)]%N; cs_space := false |}.
(* ^[A-Za-z_][A-Za-z0-9\.\-_]*$ *)
Definition ncname_pat : pattern := {| pat_caret := true; pat_body := Cat (Chr cs_start) (Star (Chr cs_rest)); pat_dollar := true |}.

Definition cs_nospace := {| cs_neg := true; cs_ranges := []; cs_space := true |}.
Definition cs_nospace_noslash := {| cs_neg := true; cs_ranges := [(47, 47)]%N; cs_space := true |}.
Definition cs_slash := {| cs_neg := false; cs_ranges := [(47, 47)]%N; cs_space := false |}.
(* (/[^\s/][^\s]*|[^\s/][^\s]*|[^\s]?) *)
Definition luid_pat : pattern :=
  {| pat_caret := false;
     pat_body := Alt (Cat (Chr cs_slash) (Cat (Chr cs_nospace_noslash) (Star (Chr cs_nospace))))
                (Alt (Cat (Chr cs_nospace_noslash) (Star (Chr cs_nospace)))
                     (Alt (Chr cs_nospace) Eps));
     pat_dollar := false |}.
Definition ncname_method := MFullmatch.
Definition luid_method := MFullmatch.

Section W.
Variable isspace_c : chr -> bool.
Variables (pm lm : re_method) (pp lp : pattern).

Definition is_w3c_prefix_g (s : str) : bool := run_pattern isspace_c pm pp s.
Definition is_w3c_luid_g (s : str) : bool := run_pattern isspace_c lm lp s.
Definition is_w3c_curie_g (s : str) : bool :=
  if existsb (fun c => N.eqb c 91 || N.eqb c 93) s then false          (* '[' or ']' *)
  else if forallb isspace_c s then false                               (* not curie.strip() *)
  else match partition [58%N] s with
       | None => is_w3c_luid_g s
       | Some (p, i) => match p with [] => is_w3c_luid_g i | _ => is_w3c_prefix_g p && is_w3c_luid_g i end
       end.
End W.

Definition is_w3c_prefix sp := is_w3c_prefix_g sp ncname_method ncname_pat.
Definition is_w3c_luid sp := is_w3c_luid_g sp luid_method luid_pat.
Definition is_w3c_curie sp := is_w3c_curie_g sp ncname_method luid_method ncname_pat luid_pat.

(* the pre-repair variant (re.match), kept to document defect D9 *)
Definition is_w3c_prefix_match sp := is_w3c_prefix_g sp MMatch ncname_pat.
Definition is_w3c_curie_match sp := is_w3c_curie_g sp MMatch MMatch ncname_pat luid_pat.

(* ---- the documented grammar, written independently of the patterns ---- *)
Definition is_start (c : chr) : bool := ((65 <=? c) && (c <=? 90) || (97 <=? c) && (c <=? 122) || (c =? 95))%N.
Definition is_rest (c : chr) : bool := (is_start c || (48 <=? c) && (c <=? 57) || (c =? 46) || (c =? 45))%N.
Definition ncnameb (p : str) : bool := match p with [] => false | c :: t => is_start c && forallb is_rest t end.
Definition no_space (sp : chr -> bool) (s : str) : bool := forallb (fun c => negb (sp c)) s.
Definition referenceb (sp : chr -> bool) (r : str) : bool := no_space sp r && negb (prefixb [47; 47]%N r).
Definition w3c_curie_spec (sp : chr -> bool) (s : str) : bool :=
  negb (existsb (fun c => N.eqb c 91 || N.eqb c 93) s) && negb (forallb sp s) &&
  match partition [58%N] s with
  | None => referenceb sp s
  | Some (p, r) => (match p with [] => true | _ => ncnameb p end) && referenceb sp r
  end.

(* ---- driver entry: case = [string; list of the code points that are whitespace]; obs = [prefix?; curie?] ---- *)
Definition sp_of (spaces : str) : chr -> bool := fun c => existsb (N.eqb c) spaces.
Definition model_w3c (sp : chr -> bool) (s : str) : val := VList [vbool (is_w3c_prefix sp s); vbool (is_w3c_curie sp s)].
Definition spec_w3c (sp : chr -> bool) (s : str) : val := VList [vbool (ncnameb s); vbool (w3c_curie_spec sp s)].
(* the property on one string: the two answers are those of the documented grammar *)
Definition P_C20 (sp : chr -> bool) (s : str) (o : val) : bool := val_eqb o (spec_w3c sp s).
(* the whitespace table is the interpreter's; '/' is not whitespace in any version of Unicode *)
Definition valid_w3c (spaces : str) : bool := negb (sp_of spaces 47%N).
Definition run_w3c (case obs : val) : val :=
  match case with
  | VList [VStr s; VStr spaces] =>
      let sp := sp_of spaces in
      let m := model_w3c sp s in
      let same := val_eqb m obs in
      VList [vbool same; vbool (valid_w3c spaces); vbool (P_C20 sp s m); vbool (P_C20 sp s obs); if same then VList [] else m]
  | _ => VList [VInt (-1)]
  end.

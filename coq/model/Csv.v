(* Python's csv module (CPython 3.12, Modules/_csv.c) as curies uses it:
     csv.writer(file, delimiter=d).writerow(fields)      -- quotechar = the double quote U+0022, doublequote=True, quoting=QUOTE_MINIMAL,
                                                            lineterminator "\r\n", escapechar None
     csv.reader(file, delimiter=d)                       -- strict=False, skipinitialspace=False, escapechar None,
                                                            file opened with newline="" (no newline translation)
   All fields are str.  A str is a list of code points (model/Str.v).  Definitions only, no proofs here.

   Three layers, as in Python:
     file_lines   : iteration over a text file opened with newline=""  (lines end at "\n", "\r\n" or a lone "\r",
                    the terminator is kept; a last line without terminator is still a line)
     csv_reader   : csv.reader(iterable of strings): the state machine parse_process_char of _csv.c, one call of
                    Reader_iternext per record; every line is followed by the pseudo character EOL
     csv_read     : list(csv.reader(file))  =  csv_reader (file_lines text)
   and, for the proofs, the same reader as ONE machine over the character stream (csv_read_stream), proved equal to
   csv_read in proofs/CsvFacts.v.

   Not modelled because unreachable with these dialect parameters: the states ESCAPED_CHAR, AFTER_ESCAPED_CRNL,
   ESCAPE_IN_QUOTED_FIELD (escapechar is None), the strict-mode errors, skipinitialspace, QUOTE_NONNUMERIC/QUOTE_NONE.
   Modelled: the two csv.Error a non-strict reader can still raise:
     "field larger than field limit (131072)"   (parse_add_char; csv.field_size_limit(), default 128 KiB), and
     "new-line character seen in unquoted field" (state EAT_CRNL; impossible on the lines of a newline="" file). *)
From Curies.model Require Export Str.
Local Open Scope N_scope.

Definition LF : chr := 10.
Definition CR : chr := 13.
Definition QUOTE : chr := 34.
Definition TAB : chr := 9.
(* csv.field_size_limit() : module default *)
Definition csv_field_limit : N := 131072.

(* ------------------------------------------------------------------ writer *)
(* join_append_data: c == delimiter || c == escapechar(unset) || c == quotechar || c in lineterminator *)
Definition csv_special (d c : chr) : bool := N.eqb c d || N.eqb c QUOTE || N.eqb c CR || N.eqb c LF.
Definition csv_needs_quote (d : chr) (f : str) : bool := existsb (csv_special d) f.
(* one field: quoted iff it contains a special character; inside the quotes every quote character is doubled *)
Definition csv_field (d : chr) (f : str) : str :=
  if csv_needs_quote d f then QUOTE :: replace1 QUOTE [QUOTE; QUOTE] f ++ [QUOTE] else f.
(* csv_writerow: the fields joined by the delimiter; "if (self->num_fields > 0 && self->rec_len == 0)" -- which
   happens exactly for the row [""] -- the single empty field is written again, quoted; then the line terminator *)
Definition csv_write_row (d : chr) (fields : list str) : str :=
  let body := join [d] (map (csv_field d) fields) in
  match fields, body with
  | _ :: _, [] => [QUOTE; QUOTE]
  | _, _ => body
  end ++ [CR; LF].
(* writerows / successive writerow calls on the same file *)
Definition csv_write_rows (d : chr) (rows : list (list str)) : str := flat_map (csv_write_row d) rows.

(* ------------------------------------------------------------------ text file, newline="" *)
(* for line in file: universal newlines recognised, not translated.  cur = the current line, reversed *)
Fixpoint file_lines_aux (cur : str) (s : str) {struct s} : list str :=
  match s with
  | [] => match cur with [] => [] | _ => [rev_append cur []] end
  | c :: t =>
      if N.eqb c LF then rev_append (c :: cur) [] :: file_lines_aux [] t
      else if N.eqb c CR then
        match t with
        | c2 :: _ => if N.eqb c2 LF then file_lines_aux (c :: cur) t        (* "\r\n": the line ends at the "\n" *)
                     else rev_append (c :: cur) [] :: file_lines_aux [] t
        | [] => rev_append (c :: cur) [] :: file_lines_aux [] t
        end
      else file_lines_aux (c :: cur) t
  end.
Definition file_lines (s : str) : list str := file_lines_aux [] s.

(* ------------------------------------------------------------------ reader *)
Inductive pstate := START_RECORD | START_FIELD | IN_FIELD | IN_QUOTED_FIELD | QUOTE_IN_QUOTED_FIELD | EAT_CRNL.
(* ReaderObj: state, fields (the record so far, reversed), field (the field buffer, reversed), field_len *)
Record reader := { r_state : pstate; r_fields : list str; r_field : str; r_len : N }.
(* parse_reset *)
Definition reader_reset : reader := {| r_state := START_RECORD; r_fields := []; r_field := []; r_len := 0 |}.

Definition is_start (rd : reader) : bool := match r_state rd with START_RECORD => true | _ => false end.
Definition is_in_quoted (rd : reader) : bool := match r_state rd with IN_QUOTED_FIELD => true | _ => false end.
Definition is_nl (c : chr) : bool := N.eqb c LF || N.eqb c CR.

Definition set_state (rd : reader) (st : pstate) : reader :=
  {| r_state := st; r_fields := r_fields rd; r_field := r_field rd; r_len := r_len rd |}.
(* parse_add_char, then state := st.  "if (self->field_len >= field_limit) -> csv.Error" *)
Definition add_char (lim : N) (rd : reader) (c : chr) (st : pstate) : option reader :=
  if N.leb lim (r_len rd) then None
  else Some {| r_state := st; r_fields := r_fields rd; r_field := c :: r_field rd; r_len := N.succ (r_len rd) |}.
(* parse_save_field, then state := st *)
Definition save_field (rd : reader) (st : pstate) : reader :=
  {| r_state := st; r_fields := rev_append (r_field rd) [] :: r_fields rd; r_field := []; r_len := 0 |}.

(* case START_FIELD (also reached by fall-through from START_RECORD), c a real character *)
Definition start_field (lim : N) (d : chr) (rd : reader) (c : chr) : option reader :=
  if is_nl c then Some (save_field rd EAT_CRNL)                  (* save empty field *)
  else if N.eqb c QUOTE then Some (set_state rd IN_QUOTED_FIELD) (* start quoted field *)
  else if N.eqb c d then Some (save_field rd START_FIELD)        (* save empty field *)
  else add_char lim rd c IN_FIELD.                               (* begin new unquoted field *)

(* parse_process_char on a real character; None = csv.Error *)
Definition process_char (lim : N) (d : chr) (rd : reader) (c : chr) : option reader :=
  match r_state rd with
  | START_RECORD =>
      if is_nl c then Some (set_state rd EAT_CRNL)
      else start_field lim d rd c
  | START_FIELD => start_field lim d rd c
  | IN_FIELD =>
      if is_nl c then Some (save_field rd EAT_CRNL)
      else if N.eqb c d then Some (save_field rd START_FIELD)
      else add_char lim rd c IN_FIELD
  | IN_QUOTED_FIELD =>
      if N.eqb c QUOTE then Some (set_state rd QUOTE_IN_QUOTED_FIELD)      (* doublequote=True *)
      else add_char lim rd c IN_QUOTED_FIELD
  | QUOTE_IN_QUOTED_FIELD =>
      if N.eqb c QUOTE then add_char lim rd c IN_QUOTED_FIELD               (* two quotes are one quote *)
      else if N.eqb c d then Some (save_field rd START_FIELD)
      else if is_nl c then Some (save_field rd EAT_CRNL)
      else add_char lim rd c IN_FIELD                                      (* not strict: keep going unquoted *)
  | EAT_CRNL =>
      if is_nl c then Some rd
      else None                                                            (* "new-line character seen in unquoted field" *)
  end.

(* parse_process_char on the pseudo character EOL (fed after every line); never an error *)
Definition process_eol (rd : reader) : reader :=
  match r_state rd with
  | START_RECORD => rd                                   (* empty line - return [] *)
  | START_FIELD => save_field rd START_RECORD
  | IN_FIELD => save_field rd START_RECORD
  | IN_QUOTED_FIELD => rd
  | QUOTE_IN_QUOTED_FIELD => save_field rd START_RECORD
  | EAT_CRNL => set_state rd START_RECORD
  end.

(* the characters of one line *)
Fixpoint feed (lim : N) (d : chr) (rd : reader) (s : str) {struct s} : option reader :=
  match s with
  | [] => Some rd
  | c :: t => match process_char lim d rd c with None => None | Some rd' => feed lim d rd' t end
  end.

(* Reader_iternext at the end of the input: "if (self->field_len != 0 || self->state == IN_QUOTED_FIELD)" the pending
   field is saved and the record returned (not strict); otherwise StopIteration *)
Definition reader_eof (rd : reader) : list (list str) :=
  if negb (N.eqb (r_len rd) 0) || is_in_quoted rd then [rev_append (r_fields (save_field rd START_RECORD)) []] else [].

(* list(csv.reader(lines)): rd is the reader inside the current Reader_iternext call; a record is complete when the
   state is START_RECORD after the EOL of a line, and the next call starts with parse_reset *)
Fixpoint reader_lines (lim : N) (d : chr) (rd : reader) (lines : list str) {struct lines} : option (list (list str)) :=
  match lines with
  | [] => Some (reader_eof rd)
  | l :: rest =>
      match feed lim d rd l with
      | None => None
      | Some rd1 =>
          let rd2 := process_eol rd1 in
          if is_start rd2 then option_map (cons (rev_append (r_fields rd2) [])) (reader_lines lim d reader_reset rest)
          else reader_lines lim d rd2 rest
      end
  end.

(* list(csv.reader(lines, delimiter=d)) for any iterable of strings; None = csv.Error *)
Definition csv_reader_lim (lim : N) (d : chr) (lines : list str) : option (list (list str)) :=
  reader_lines lim d reader_reset lines.
Definition csv_reader : chr -> list str -> option (list (list str)) := csv_reader_lim csv_field_limit.

(* list(csv.reader(file, delimiter=d)), file = the text opened with newline="" *)
Definition csv_read_lim (lim : N) (d : chr) (text : str) : option (list (list str)) :=
  csv_reader_lim lim d (file_lines text).
Definition csv_read : chr -> str -> option (list (list str)) := csv_read_lim csv_field_limit.

(* ------------------------------------------------------------------ the same, as one machine over the characters *)
(* the line of c ends at c:  "\n";  "\r" not followed by "\n" *)
Definition line_end (c : chr) (t : str) : bool :=
  N.eqb c LF || (N.eqb c CR && negb (match t with c2 :: _ => N.eqb c2 LF | [] => false end)).
Definition is_nil (t : str) : bool := match t with [] => true | _ => false end.

(* EOL is fed after c iff the line ends at c or c is the last character of the text *)
Fixpoint reader_stream (lim : N) (d : chr) (rd : reader) (s : str) {struct s} : option (list (list str)) :=
  match s with
  | [] => Some (reader_eof rd)
  | c :: t =>
      match process_char lim d rd c with
      | None => None
      | Some rd1 =>
          if line_end c t || is_nil t then
            let rd2 := process_eol rd1 in
            if is_start rd2 then option_map (cons (rev_append (r_fields rd2) [])) (reader_stream lim d reader_reset t)
            else reader_stream lim d rd2 t
          else reader_stream lim d rd1 t
      end
  end.
Definition csv_read_stream_lim (lim : N) (d : chr) (text : str) : option (list (list str)) :=
  reader_stream lim d reader_reset text.
Definition csv_read_stream : chr -> str -> option (list (list str)) := csv_read_stream_lim csv_field_limit.

(* C14 driver entry with the text of the SHACL lines: besides the converter read back, the run hands over the lines that the
   implementation's write_shacl actually wrote; each of them, read by the line parser of model/ShaclText.v, must be one of the
   (prefix, namespace, pattern) entries the converter has (part of 'implementation = model').  No proofs here. *)
From Curies.model Require Export Writers ShaclText.

Definition line_entry_ok (rs : list record) (syn : bool) (line : str) : bool :=
  match shacl_parse_line line with
  | Some (p, u, pat) =>
      existsb (fun r => mem p (r_prefix r :: (if syn then r_psyn r else [])) && str_eqb u (r_uri r)
                        && val_eqb (vopt VStr pat) (vopt VStr (nonempty_pat r))) rs
  | None => false
  end.

(* obs = the read-back observation, or [77; read-back; lines] for SHACL *)
Definition run_writers_text (case obs : val) : val :=
  match case, obs with
  | VList (rs :: VInt fmt :: VInt syn :: VInt ex :: _), VList [VInt 77; rb; VList lines] =>
      match as_records rs, as_strs (VList lines), run_writers case rb with
      | Some rs', Some ls, VList [VInt same; valid; pm; pi; m] =>
          (* a line the model's reader cannot read is a break of the correspondence (the text layer is no longer the modelled one),
             not by itself a failure of the property: whether the converter reads back is judged on the real round trip (pi) *)
          let ok := forallb (line_entry_ok rs' (negb (Z.eqb syn 0))) ls in
          VList [vbool (negb (Z.eqb same 0) && ok); valid; pm; pi; m]
      | _, _, r => r
      end
  | _, _ => run_writers case obs
  end.

(* Python dict (insertion ordered), sorted(), set helpers, itertools.  No proofs here. *)
From Curies.model Require Export Str.

Definition dict (V : Type) := list (str * V).
Fixpoint dget {V} (k : str) (d : dict V) : option V :=
  match d with [] => None | (k', v) :: d' => if str_eqb k k' then Some v else dget k d' end.
(* d[k] = v : overwrite in place keeping the position, otherwise append *)
Fixpoint dset {V} (k : str) (v : V) (d : dict V) : dict V :=
  match d with
  | [] => [(k, v)]
  | (k', v') :: d' => if str_eqb k k' then (k', v) :: d' else (k', v') :: dset k v d'
  end.
Fixpoint ddel {V} (k : str) (d : dict V) : dict V :=
  match d with [] => [] | (k', v) :: d' => if str_eqb k k' then d' else (k', v) :: ddel k d' end.
Definition dkeys {V} (d : dict V) : list str := map fst d.
Definition dvalues {V} (d : dict V) : list V := map snd d.
Definition dhas {V} (k : str) (d : dict V) : bool := match dget k d with Some _ => true | None => false end.
(* dict(items) *)
Definition dict_of {V} (items : list (str * V)) : dict V := fold_left (fun d kv => dset (fst kv) (snd kv) d) items [].
(* defaultdict(list)[k].append(v) *)
Definition dappend {V} (k : str) (v : V) (d : dict (list V)) : dict (list V) :=
  match dget k d with Some l => dset k (l ++ [v]) d | None => dset k [v] d end.

(* sorted(xs, key=...) : stable insertion sort *)
Section Sort.
  Variable A : Type.
  Variable leb : A -> A -> bool.
  Fixpoint insert_sorted (x : A) (l : list A) : list A :=
    match l with
    | [] => [x]
    | y :: l' => if leb x y then x :: l else y :: insert_sorted x l'
    end.
  (* inserting from the right keeps equal elements in input order when leb is <= *)
  Definition sort (l : list A) : list A := fold_right insert_sorted [] l.
End Sort.
Arguments insert_sorted {A}. Arguments sort {A}.

Definition sort_str : list str -> list str := sort str_leb.
Definition sort_by_key {A} (key : A -> str) : list A -> list A := sort (fun a b => str_leb (key a) (key b)).
Definition sort_by_len {A} (key : A -> nat) : list A -> list A := sort (fun a b => Nat.leb (key a) (key b)).

(* list(dict.fromkeys(xs)) : remove later duplicates *)
Fixpoint dedup (l : list str) : list str :=
  match l with [] => [] | x :: l' => x :: filter (fun y => negb (str_eqb x y)) (dedup l') end.
(* sorted(set(xs)) *)
Definition sort_uniq (l : list str) : list str := sort_str (dedup l).

(* itertools.combinations(xs, 2) *)
Fixpoint combinations2 {A} (l : list A) : list (A * A) :=
  match l with [] => [] | x :: l' => map (fun y => (x, y)) l' ++ combinations2 l' end.
(* itertools.product(xs, ys) *)
Definition product {A B} (xs : list A) (ys : list B) : list (A * B) :=
  flat_map (fun x => map (fun y => (x, y)) ys) xs.

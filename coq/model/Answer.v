(* The query type: one constructor per public query (with flags), and the model's answer to it.  No proofs here. *)
From Curies.model Require Export Query Val.

Inductive query :=
| QParseUri (s : str) (strict : bool)
| QCompress (s : str) (strict pass : bool)
| QIsUri (s : str)
| QParseCurie (s : str) (strict : bool)
| QExpand (s : str) (strict pass : bool)
| QIsCurie (s : str)
| QExpandAll (s : str) (strict : bool)
| QParse (s : str) (strict : bool)
| QCompressOrStd (s : str) (strict pass : bool)
| QExpandOrStd (s : str) (strict pass : bool)
| QStdPrefix (s : str) (strict pass : bool)
| QStdCurie (s : str) (strict pass : bool)
| QStdUri (s : str) (strict pass : bool)
| QCompressStrict (s : str)
| QExpandStrict (s : str)
| QExpandPair (p i : str) (strict pass : bool)
| QExpandRef (p i : str) (strict pass : bool)
| QExpandPairAll (p i : str) (strict : bool)
| QFormatCurie (p i : str)
| QGetRecord (p : str)
| QBimap | QReverseBimap
| QGetPrefixes (syn : bool) | QGetUriPrefixes (syn : bool)
| QRecords
| QPrefixMap | QReversePrefixMap | QSynonymToPrefix | QPatternMap.

Definition vostr := vopt VStr.
Definition voref := vopt vref.
(* expand_all / expand_pair_all: "the canonical URI first, then one per URI-prefix synonym": the order among the synonyms is not
   part of any statement, so it is normalised (first element kept, the rest sorted) on both sides of every comparison *)
Definition norm_all (l : list str) : list str := match l with [] => [] | x :: r => x :: sort_str r end.
Definition vostrs := vopt (fun l => vstrs (norm_all l)).

Definition answer (c : conv) (q : query) : val :=
  match q with
  | QParseUri s st => vres voref (parse_uri c s st)
  | QCompress s st pa => vres vostr (compress c s st pa)
  | QIsUri s => vres vbool (Val (is_uri c s))
  | QParseCurie s st => vres voref (parse_curie c s st)
  | QExpand s st pa => vres vostr (expand c s st pa)
  | QIsCurie s => vres vbool (Val (is_curie c s))
  | QExpandAll s st => vres vostrs (expand_all c s st)
  | QParse s st => vres voref (parse c s st)
  | QCompressOrStd s st pa => vres vostr (compress_or_standardize c s st pa)
  | QExpandOrStd s st pa => vres vostr (expand_or_standardize c s st pa)
  | QStdPrefix s st pa => vres vostr (standardize_prefix c s st pa)
  | QStdCurie s st pa => vres vostr (standardize_curie c s st pa)
  | QStdUri s st pa => vres vostr (standardize_uri c s st pa)
  | QCompressStrict s => vres vostr (compress_strict c s)
  | QExpandStrict s => vres vostr (expand_strict c s)
  | QExpandPair p i st pa => vres vostr (expand_pair c p i st pa)
  | QExpandRef p i st pa => vres vostr (expand_reference c (p, i) st pa)
  | QExpandPairAll p i st => vres vostrs (expand_pair_all c p i st)
  | QFormatCurie p i => vres VStr (Val (format_curie c p i))
  | QGetRecord p => vres (vopt vrecord) (Val (get_record c p))
  | QBimap => vres vdict (Val (bimap c))
  | QReverseBimap => vres vdict (Val (reverse_bimap c))
  | QGetPrefixes syn => vres vstrs (Val (get_prefixes syn c))
  | QGetUriPrefixes syn => vres vstrs (Val (get_uri_prefixes syn c))
  | QRecords => vres (fun rs => VList (map vrecord rs)) (Val (sort_records (recs c)))
  | QPrefixMap => vres vdict (Val (pmap c))
  | QReversePrefixMap => vres vdict (Val (rpmap c))
  | QSynonymToPrefix => vres vdict (Val (synmap c))
  | QPatternMap => vres vdict (Val (patmap c))
  end.

Definition modes : list (bool * bool) := [(false, false); (false, true); (true, false); (true, true)].

(* the battery of string queries, in the order the harness uses *)
Definition battery_str (s : str) : list query :=
  [QParseUri s false; QParseUri s true; QIsUri s; QParseCurie s false; QParseCurie s true; QIsCurie s;
   QExpandAll s false; QExpandAll s true; QParse s false; QParse s true; QCompressStrict s; QExpandStrict s]
  ++ flat_map (fun '(st, pa) =>
       [QCompress s st pa; QExpand s st pa; QCompressOrStd s st pa; QExpandOrStd s st pa;
        QStdPrefix s st pa; QStdCurie s st pa; QStdUri s st pa]) modes.
Definition battery_pair (pi : str * str) : list query :=
  let '(p, i) := pi in
  [QExpandPairAll p i false; QExpandPairAll p i true; QFormatCurie p i; QGetRecord p]
  ++ flat_map (fun '(st, pa) => [QExpandPair p i st pa; QExpandRef p i st pa]) modes.
Definition battery_intro : list query :=
  [QBimap; QReverseBimap; QGetPrefixes false; QGetPrefixes true; QGetUriPrefixes false; QGetUriPrefixes true;
   QRecords; QPrefixMap; QReversePrefixMap; QSynonymToPrefix; QPatternMap].
Definition battery (ss : list str) (ps : list (str * str)) : list query :=
  flat_map battery_str ss ++ flat_map battery_pair ps ++ battery_intro.

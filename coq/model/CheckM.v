(* C05 (and the construction part of C04): histories of add_record / add_prefix; model observation and predicate. *)
From Curies.model Require Export Mutate Spec CheckQ.

(* op = [record; case_sensitive; merge; via_add_prefix] *)
Record mop := { op_rec : record; op_cs : bool; op_mg : bool; op_ap : bool }.
Record mcase := { mc_recs : list record; mc_delim : str; mc_ops : list mop; mc_strs : list str;
                  mc_pairs : list (str * str); mc_fold : list (chr * str) }.

Definition as_mop (v : val) : option mop :=
  match v with
  | VList [r; VInt a; VInt b; VInt c] =>
      match as_record r with
      | Some r' => Some {| op_rec := r'; op_cs := negb (Z.eqb a 0); op_mg := negb (Z.eqb b 0); op_ap := negb (Z.eqb c 0) |}
      | None => None end
  | _ => None
  end.
Definition as_fold_entry (v : val) : option (chr * str) :=
  match v with VList [VInt z; VStr s] => Some (Z.to_N z, s) | _ => None end.
Definition decode_mcase (v : val) : option mcase :=
  match v with
  | VList [rs; VStr d; ops; ss; ps; ft] =>
      match as_records rs, as_list_of as_mop ops, as_strs ss, as_list_of as_pair_str ps, as_list_of as_fold_entry ft with
      | Some rs', Some ops', Some ss', Some ps', Some ft' =>
          Some {| mc_recs := rs'; mc_delim := d; mc_ops := ops'; mc_strs := ss'; mc_pairs := ps'; mc_fold := ft' |}
      | _, _, _, _, _ => None
      end
  | _ => None
  end.

(* casefold table: code points not listed fold to themselves *)
Definition fold_of (tbl : list (chr * str)) (c : chr) : str :=
  match List.find (fun e => N.eqb (fst e) c) tbl with Some e => snd e | None => [c] end.

Definition mbattery (k : mcase) : list query := battery (mc_strs k) (mc_pairs k).

(* outcome codes: 0 accepted, 1 ValueError (rejection or record validation), 2 anything else *)
Definition step_code {A} (r : res A) : Z :=
  match r with Val _ => 0 | Raise EValueError => 1 | Raise ERecordValidation => 1 | Raise _ => 2 end%Z.

Definition apply_op (fc : chr -> str) (c : conv) (o : mop) : res conv :=
  if op_ap o
  then add_prefix fc c (r_prefix (op_rec o)) (r_uri (op_rec o)) (r_psyn (op_rec o)) (r_usyn (op_rec o)) (op_cs o) (op_mg o)
  else add_record fc c (op_rec o) (op_cs o) (op_mg o).

(* observation of a converter: answers to the battery; whether Converter(copy of records) is accepted *)
Definition obs_conv (B : list query) (c : conv) : val :=
  VList [VInt (ctor_code (mk_conv true (delim c) (recs c))); VList (map (answer c) B)].

Fixpoint run_ops (fc : chr -> str) (B : list query) (c : conv) (ops : list mop) : list val :=
  match ops with
  | [] => []
  | o :: rest =>
      match apply_op fc c o with
      | Val c' => VList [VInt 0; obs_conv B c'] :: run_ops fc B c' rest
      | Raise e => VList [VInt (step_code (@Raise conv e)); obs_conv B c] :: run_ops fc B c rest
      end
  end.

Definition model_mobs (k : mcase) : val :=
  match mk_conv true (mc_delim k) (mc_recs k) with
  | Val c => VList [VInt 0; obs_conv (mbattery k) c; VList (run_ops (fold_of (mc_fold k)) (mbattery k) c (mc_ops k))]
  | Raise e => VList [VInt (ctor_code (@Raise conv e)); VList []; VList []]
  end.

(* ---- specification of one step on the record collection (sets: records sorted, synonyms sorted) ---- *)
Definition norm_record (r : record) : record :=
  {| r_prefix := r_prefix r; r_uri := r_uri r; r_psyn := sort_str (r_psyn r); r_usyn := sort_str (r_usyn r); r_pat := r_pat r |}.
Definition norm_records (rs : list record) : val := VList (map vrecord (sort_records (map norm_record rs))).

Definition spec_merge (ext m : record) : record :=
  {| r_prefix := r_prefix m; r_uri := r_uri m;
     r_psyn := r_psyn m ++ dedup (filter (fun x => negb (mem x (all_prefixes m))) (all_prefixes ext));
     r_usyn := r_usyn m ++ dedup (filter (fun x => negb (mem x (all_uris m))) (all_uris ext));
     r_pat := r_pat m |}.
(* expected (outcome code, records afterwards) *)
Definition spec_step (fc : chr -> str) (rs : list record) (o : mop) : Z * list record :=
  let ext0 := op_rec o in
  let invalid := op_ap o && (mem (r_prefix ext0) (r_psyn ext0) || mem (r_uri ext0) (r_usyn ext0)) in
  if invalid then (1%Z, rs)
  else
    let ext := if op_ap o then {| r_prefix := r_prefix ext0; r_uri := r_uri ext0; r_psyn := sort_str (r_psyn ext0);
                                  r_usyn := sort_str (r_usyn ext0); r_pat := None |} else ext0 in
    match filter (matches_record fc (op_cs o) ext) rs with
    | [] => (0%Z, rs ++ [ext])
    | [m] => if op_mg o
             then (0%Z, map (fun r => if str_eqb (r_prefix r) (r_prefix m) then spec_merge ext m else r) rs)
             else (1%Z, rs)
    | _ => (1%Z, rs)
    end.

(* records as observed: the QRecords answer of the battery (last but four of battery_intro) *)
Definition obs_records (B : list query) (answers : list val) : option (list record) :=
  match find_obs (fun q => match q with QRecords => true | _ => false end) (combine B answers) with
  | Some (VList [VInt 0; rs]) => as_records rs
  | _ => None
  end.

Definition all_conv_queries (q : query) : bool :=
  match q with QBimap | QReverseBimap | QGetPrefixes _ | QGetUriPrefixes _ | QRecords
             | QPrefixMap | QReversePrefixMap | QSynonymToPrefix | QPatternMap => false | _ => true end.

(* one observed converter state is consistent with its own records *)
Definition P_state (k : mcase) (o : val) : option (list record) :=
  match o with
  | VList [VInt 0; VList answers] =>
      let B := mbattery k in
      if Nat.eqb (length answers) (length B) then
        match obs_records B answers with
        | Some rs =>
            if forallb (fun qv => if all_conv_queries (fst qv)
                                  then val_eqb (snd qv) (spec_answer rs (mc_delim k) (fst qv)) else true) (combine B answers)
               && strictb rs
            then Some rs else None
        | None => None
        end
      else None
  | _ => None
  end.

Fixpoint P_steps (k : mcase) (fc : chr -> str) (rs : list record) (ops : list mop) (obs : list val) : bool :=
  match ops, obs with
  | [], [] => true
  | o :: ops', VList [VInt code; st] :: obs' =>
      let '(ecode, ers) := spec_step fc rs o in
      Z.eqb code ecode &&
      match P_state k st with
      | Some rs' => val_eqb (norm_records rs') (norm_records ers) && P_steps k fc rs' ops' obs'
      | None => false
      end
  | _, _ => false
  end.

Definition P_C05 (k : mcase) (o : val) : bool :=
  match o with
  | VList [VInt 0; st0; VList steps] =>
      match P_state k st0 with
      | Some rs0 => val_eqb (norm_records rs0) (norm_records (mc_recs k)) && P_steps k (fold_of (mc_fold k)) rs0 (mc_ops k) steps
      | None => false
      end
  | _ => false
  end.

Definition valid_m (k : mcase) : bool := strict_okb (mc_recs k) && negb (is_nil (mc_delim k)).

Definition run_mutate (case obs : val) : val :=
  match decode_mcase case with
  | None => VList [VInt (-1)]
  | Some k =>
      let m := model_mobs k in
      let same := val_eqb m obs in
      VList [vbool same; vbool (valid_m k); vbool (P_C05 k m); vbool (P_C05 k obs); if same then VList [] else m]
  end.

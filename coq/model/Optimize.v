(* curies.mapping_service.rdflib_custom._optimize_node: the rewriting of the SPARQL algebra tree that moves a VALUES
   clause (ToMultiSet) to the front of the Join it takes part in.  rdflib's CompValue is an ordered dictionary with a
   name; a field holds another CompValue or anything else (lists of triples, variables, expressions: opaque here,
   _optimize_node does not look into them).  No proofs here. *)
From Curies.model Require Export Val.

Inductive alg := ANode (name : str) (fs : fields)
with fields :=
| FNil
| FNodeF (key : str) (a : alg) (rest : fields)         (* a field holding a CompValue *)
| FLeafF (key : str) (tag : str) (rest : fields).      (* a field holding anything else *)

Definition aname (a : alg) : str := match a with ANode n _ => n end.

(* the three literals of the source; gen/GenObl_C18.v shows that the translator reads the same ones from rdflib_custom.py *)
Definition join_name : str := [74; 111; 105; 110]%N.                                      (* "Join" *)
Definition multiset_name : str := [84; 111; 77; 117; 108; 116; 105; 83; 101; 116]%N.     (* "ToMultiSet" *)
Definition k_p1 : str := [112; 49]%N.
Definition k_p2 : str := [112; 50]%N.

Fixpoint fget (k : str) (fs : fields) : option alg :=
  match fs with
  | FNil => None
  | FNodeF k' a r => if str_eqb k k' then Some a else fget k r
  | FLeafF k' _ r => if str_eqb k k' then None else fget k r
  end.
(* dict.update on an existing key: the value changes, the position stays *)
Fixpoint fset (k : str) (v : alg) (fs : fields) : fields :=
  match fs with
  | FNil => FNil
  | FNodeF k' a r => if str_eqb k k' then FNodeF k' v r else FNodeF k' a (fset k v r)
  | FLeafF k' t r => if str_eqb k k' then FNodeF k' v r else FLeafF k' t (fset k v r)
  end.

(* comp_value.name == "Join" and comp_value.p1.name != "ToMultiSet" and comp_value.p2.name == "ToMultiSet" *)
Definition should_swap (n : str) (fs : fields) : bool :=
  str_eqb n join_name &&
  match fget k_p1 fs, fget k_p2 fs with
  | Some a1, Some a2 => negb (str_eqb (aname a1) multiset_name) && str_eqb (aname a2) multiset_name
  | _, _ => false
  end.
(* comp_value.update(p1=comp_value.p2, p2=comp_value.p1) *)
Definition swap_if (n : str) (fs : fields) : fields :=
  if should_swap n fs then
    match fget k_p1 fs, fget k_p2 fs with
    | Some a1, Some a2 => fset k_p2 a1 (fset k_p1 a2 fs)
    | _, _ => fs
    end
  else fs.

(* The function recurses into the children first and swaps afterwards, which is structurally recursive; the source swaps
   first and then recurses into the (swapped) children.  The two orders give the same tree because the test only reads the
   NAMES of the two operands, which the recursion does not change: theorem opt_code_order states the source's order. *)
Fixpoint opt (a : alg) : alg :=
  match a with ANode n fs => ANode n (swap_if n (opt_fields fs)) end
with opt_fields (fs : fields) : fields :=
  match fs with
  | FNil => FNil
  | FNodeF k a r => FNodeF k (opt a) (opt_fields r)
  | FLeafF k t r => FLeafF k t (opt_fields r)
  end.

(* no Join (anywhere below, through CompValue-valued fields) still has a VALUES clause as its second operand only *)
Fixpoint values_first (a : alg) : bool :=
  match a with ANode n fs => negb (should_swap n fs) && values_first_fields fs end
with values_first_fields (fs : fields) : bool :=
  match fs with
  | FNil => true
  | FNodeF _ a r => values_first a && values_first_fields r
  | FLeafF _ _ r => values_first_fields r
  end.

(* the opaque leaves and the node names, in document order: what a rewriting that only reorders Join operands must keep *)
Fixpoint leaves (a : alg) : list str :=
  match a with ANode n fs => n :: leaves_fields fs end
with leaves_fields (fs : fields) : list str :=
  match fs with
  | FNil => []
  | FNodeF _ a r => leaves a ++ leaves_fields r
  | FLeafF _ t r => t :: leaves_fields r
  end.

(* keys of a field list (positions are kept by the update) *)
Fixpoint fkeys (fs : fields) : list str :=
  match fs with FNil => [] | FNodeF k _ r => k :: fkeys r | FLeafF k _ r => k :: fkeys r end.

(* ---- encoding: tree = [name; [[key; tree or leaf-tag] ...]] ---- *)
Fixpoint valg (a : alg) : val :=
  match a with ANode n fs => VList [VStr n; VList (vfields fs)] end
with vfields (fs : fields) : list val :=
  match fs with
  | FNil => []
  | FNodeF k a r => VList [VStr k; valg a] :: vfields r
  | FLeafF k t r => VList [VStr k; VStr t] :: vfields r
  end.
Fixpoint as_alg (v : val) : option alg :=
  match v with
  | VList [VStr n; VList fs] =>
      option_map (ANode n)
        ((fix go (l : list val) : option fields :=
            match l with
            | [] => Some FNil
            | VList [VStr k; c] :: r =>
                match go r with
                | None => None
                | Some r' => match c with
                             | VStr t => Some (FLeafF k t r')
                             | _ => match as_alg c with Some a => Some (FNodeF k a r') | None => None end
                             end
                end
            | _ => None
            end) fs)
  | _ => None
  end.

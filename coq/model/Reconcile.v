(* curies.reconciliation: _order_curie_remapping, remap_curie_prefixes, remap_uri_prefixes, rewire.
   Value level (the code works on a private copy of the input converter).  No proofs here. *)
From Curies.model Require Export Query Mutate.

(* set(xs): distinct elements, order irrelevant for what follows (only emptiness / membership / sorted() are used) *)
Definition inter (a b : list str) : list str := filter (fun x => mem x b) (dedup a).

(* defaultdict(list) keyed by Optional[str]: we only need, per non-None key, the list of members *)
Definition okey_eqb (a b : option str) : bool :=
  match a, b with Some x, Some y => str_eqb x y | None, None => true | _, _ => false end.
Fixpoint group_add (k : option str) (v : str) (g : list (option str * list str)) : list (option str * list str) :=
  match g with
  | [] => [(k, [v])]
  | (k', vs) :: rest => if okey_eqb k k' then (k', vs ++ [v]) :: rest else (k', vs) :: group_add k v rest
  end.
Definition has_dup_group (g : list (option str * list str)) (as_set : bool) : bool :=
  existsb (fun kv => match fst kv with
                     | None => false
                     | Some _ => Nat.ltb 1 (length (if as_set then dedup (snd kv) else snd kv)) end) g.

Definition std (c : conv) (p : str) : option str := dget p (synmap c).

Definition pair_leb (a b : str * str) : bool :=
  match str_cmp (fst a) (fst b) with Lt => true | Gt => false | Eq => str_leb (snd a) (snd b) end.
Definition sort_pairs : list (str * str) -> list (str * str) := sort pair_leb.

(* the layered loop; fuel = number of pairs (each round removes at least one pair or raises) *)
Fixpoint layers (fuel : nat) (d : list (str * str)) : res (list (str * str)) :=
  match d with
  | [] => Val []
  | _ =>
    match fuel with
    | O => Raise EOther                                  (* unreachable: see ReconcileFacts *)
    | S f =>
        let keys := map fst d in
        let no_out := filter (fun v => negb (mem v keys)) (map snd d) in
        match no_out with
        | [] => Raise ECycleDetected
        | _ =>
            let edges := sort_pairs (filter (fun kv => mem (snd kv) no_out) d) in
            bind (layers f (filter (fun kv => negb (mem (snd kv) no_out)) d)) (fun rest => Val (edges ++ rest))
        end
    end
  end.

Definition order_curie_remapping (c : conv) (m : list (str * str)) : res (list (str * str)) :=
  let kg := fold_left (fun g kv => group_add (std c (fst kv)) (fst kv) g) m [] in
  if has_dup_group kg false then Raise EDuplicateKeys else
  let vg := fold_left (fun g kv => group_add (std c (snd kv)) (snd kv) g) m [] in
  if has_dup_group vg false then Raise EDuplicateValues else
  let cg := fold_left (fun g kv =>
              let nk := std c (fst kv) in let nv := std c (snd kv) in
              let g1 := group_add nk (fst kv) g in
              if okey_eqb nk nv then g1 else group_add nv (snd kv) g1) m [] in
  if has_dup_group cg true then Raise EInconsistentMapping else
  match inter (map fst m) (map snd m) with
  | [] => Val (sort_pairs m)
  | _ => layers (length m) m
  end.

(* state of the main loop: every record with its ORIGINAL canonical prefix, in converter order, updated in place;
   popped = original prefixes already taken out of the `records` dict; modified = in the order of processing *)
Record rstate := { rs_cur : list (str * record); rs_popped : list str; rs_modified : list str }.

Definition cur_get_record (cur : list (str * record)) (p : str) : option (str * record) :=
  List.find (fun or => str_eqb (r_prefix (snd or)) p || mem p (r_psyn (snd or))) cur.
Definition set_cur (orig : str) (r : record) (cur : list (str * record)) : list (str * record) :=
  map (fun or => if str_eqb (fst or) orig then (orig, r) else or) cur.

Definition diff2 (l : list str) (a b : str) : list str := filter (fun x => negb (str_eqb x a) && negb (str_eqb x b)) l.
Definition diff1 (l : list str) (a : str) : list str := filter (fun x => negb (str_eqb x a)) l.

Definition remap_step (c : conv) (m : list (str * str)) (intersection : list str) (st : res rstate) (on : str * str) : res rstate :=
  bind st (fun st =>
  let '(old, new) := on in
  match std c old with
  | None => Val st
  | Some orig =>
      if mem orig (rs_popped st) then Raise EKeyError else
      match List.find (fun or => str_eqb (fst or) orig) (rs_cur st) with
      | None => Raise EKeyError
      | Some (_, rc) =>
          let st' := fun cur => {| rs_cur := cur; rs_popped := orig :: rs_popped st; rs_modified := rs_modified st ++ [orig] |} in
          let clash := match cur_get_record (rs_cur st) new with
                       | Some (o2, _) => negb (str_eqb o2 orig)
                       | None => false end in
          if clash then Val (st' (rs_cur st))
          else if mem old intersection && existsb (fun kv => str_eqb (snd kv) old && dhas (fst kv) (synmap c)) m then
            let r' := {| r_prefix := new; r_uri := r_uri rc;
                         r_psyn := sort_uniq (diff2 (r_psyn rc ++ [r_prefix rc]) old new);
                         r_usyn := r_usyn rc; r_pat := r_pat rc |} in
            Val (st' (set_cur orig r' (rs_cur st)))
          else
            let r' := {| r_prefix := new; r_uri := r_uri rc;
                         r_psyn := sort_uniq (diff1 (r_psyn rc ++ [r_prefix rc]) new);
                         r_usyn := r_usyn rc; r_pat := r_pat rc |} in
            Val (st' (set_cur orig r' (rs_cur st)))
      end
  end).

Definition remap_curie_records (c : conv) (m : list (str * str)) : res (list record) :=
  bind (order_curie_remapping c m) (fun ordering =>
  let intersection := inter (map fst m) (map snd m) in
  let st0 := {| rs_cur := map (fun r => (r_prefix r, r)) (recs c); rs_popped := []; rs_modified := [] |} in
  bind (fold_left (remap_step c m intersection) ordering (Val st0)) (fun st =>
  let remaining := filter (fun or => negb (mem (fst or) (rs_popped st))) (rs_cur st) in
  let modified := flat_map (fun o => match List.find (fun or => str_eqb (fst or) o) (rs_cur st) with
                                     | Some or => [snd or] | None => [] end) (rs_modified st) in
  Val (map snd remaining ++ modified))).
Definition remap_curie_prefixes (c : conv) (m : list (str * str)) : res conv :=
  bind (remap_curie_records c m) (mk_conv true [58%N]).

(* _get_uri_preferred_or_synonym / _get_curie_preferred_or_synonym: first hit among canonical, then synonyms *)
Definition first_hit (keys : list str) (m : list (str * str)) : option str :=
  match List.find (fun k => dhas k m) keys with Some k => dget k m | None => None end.

Definition repoint (c : conv) (rc : record) (new : str) (skip_same : bool) : record :=
  if skip_same && str_eqb new (r_uri rc) then rc
  else if dhas new (rpmap c) && negb (mem new (r_usyn rc)) then rc
  else {| r_prefix := r_prefix rc; r_uri := new; r_psyn := r_psyn rc;
          r_usyn := sort_uniq (diff1 (r_usyn rc ++ [r_uri rc]) new); r_pat := r_pat rc |}.

Definition remap_uri_records (c : conv) (m : list (str * str)) : res (list record) :=
  match inter (map fst m) (map snd m) with
  | _ :: _ => Raise ETransitive
  | [] => Val (map (fun r => match first_hit (all_uris r) m with Some n => repoint c r n false | None => r end) (recs c))
  end.
Definition remap_uri_prefixes (c : conv) (m : list (str * str)) : res conv :=
  bind (remap_uri_records c m) (mk_conv true [58%N]).

Definition rewire_records (c : conv) (m : list (str * str)) : list record :=
  map (fun r => match first_hit (all_prefixes r) m with Some n => repoint c r n true | None => r end) (recs c).
Definition rewire (c : conv) (m : list (str * str)) : res conv := mk_conv true [58%N] (rewire_records c m).

(* ---- the effect of the main loop of remap_curie_prefixes on the current records, without bookkeeping and errors
   (proofs/CurieFacts.v shows the loop computes exactly this) ---- *)
Definition tagged := list (str * record).      (* (original canonical prefix, current record), converter order *)

Definition renamed (rc : record) (old new : str) (handover : bool) : record :=
  {| r_prefix := new; r_uri := r_uri rc;
     r_psyn := if handover then sort_uniq (diff2 (r_psyn rc ++ [r_prefix rc]) old new)
               else sort_uniq (diff1 (r_psyn rc ++ [r_prefix rc]) new);
     r_usyn := r_usyn rc; r_pat := r_pat rc |}.
Definition handover_cond (c : conv) (m : list (str * str)) (intersection : list str) (old : str) : bool :=
  mem old intersection && existsb (fun kv => str_eqb (snd kv) old && dhas (fst kv) (synmap c)) m.

(* the effect of one pair on the current records (bookkeeping and errors left out) *)
Definition step_cur (c : conv) (m : list (str * str)) (intersection : list str) (cur : tagged) (on : str * str) : tagged :=
  let '(old, new) := on in
  match std c old with
  | None => cur
  | Some orig =>
      match List.find (fun or => str_eqb (fst or) orig) cur with
      | None => cur
      | Some (_, rc) =>
          let clash := match cur_get_record cur new with Some (o2, _) => negb (str_eqb o2 orig) | None => false end in
          if clash then cur else set_cur orig (renamed rc old new (handover_cond c m intersection old)) cur
      end
  end.


(* Python str as a list of code points; the string primitives the library uses. No proofs here. *)
From Coq Require Export List NArith Bool Arith.
Export ListNotations.

Definition chr := N.
Definition str := list chr.

Fixpoint str_eqb (a b : str) : bool :=
  match a, b with
  | [], [] => true
  | x :: a', y :: b' => N.eqb x y && str_eqb a' b'
  | _, _ => false
  end.

(* s.startswith(p) *)
Fixpoint prefixb (p s : str) : bool :=
  match p, s with
  | [], _ => true
  | x :: p', y :: s' => N.eqb x y && prefixb p' s'
  | _ :: _, [] => false
  end.

(* s.partition(sep) at the FIRST occurrence; None when sep does not occur.
   sep = [] is outside the domain (Python raises "empty separator"). *)
Fixpoint partition (sep s : str) {struct s} : option (str * str) :=
  if prefixb sep s then Some ([], skipn (length sep) s)
  else match s with
       | [] => None
       | c :: t => match partition sep t with Some (a, b) => Some (c :: a, b) | None => None end
       end.

(* sep in s *)
Definition contains (sep s : str) : bool := match partition sep s with Some _ => true | None => false end.

(* s.rsplit(sep, 1) at the LAST occurrence *)
Fixpoint rsplit1 (sep s : str) {struct s} : option (str * str) :=
  match s with
  | [] => if prefixb sep [] then Some ([], []) else None
  | c :: t =>
      match rsplit1 sep t with
      | Some (a, b) => Some (c :: a, b)
      | None => if prefixb sep s then Some ([], skipn (length sep) s) else None
      end
  end.

(* code-point lexicographic order: Python's str comparison *)
Fixpoint str_cmp (a b : str) : comparison :=
  match a, b with
  | [], [] => Eq
  | [], _ :: _ => Lt
  | _ :: _, [] => Gt
  | x :: a', y :: b' => match N.compare x y with Eq => str_cmp a' b' | c => c end
  end.
Definition str_leb (a b : str) : bool := match str_cmp a b with Gt => false | _ => true end.
Definition str_ltb (a b : str) : bool := match str_cmp a b with Lt => true | _ => false end.

Definition mem (x : str) (l : list str) : bool := existsb (str_eqb x) l.

(* sep.join(parts) *)
Fixpoint join (sep : str) (parts : list str) : str :=
  match parts with
  | [] => []
  | [p] => p
  | p :: rest => p ++ sep ++ join sep rest
  end.

(* s.replace(a, b) for a one-character a *)
Definition replace1 (a : chr) (b : str) (s : str) : str :=
  flat_map (fun c => if N.eqb c a then b else [c]) s.

Definition endswith (suf s : str) : bool := prefixb (rev suf) (rev s).

(* The JSON string-literal codec of Python's json module (CPython 3.12):
     json_encode_str ascii s  =  json.dumps(s, ensure_ascii=ascii)              for a str s
                                 (json.encoder.encode_basestring_ascii / encode_basestring)
     json_decode_str lit      =  the str scanned by json.decoder.scanstring(lit, 1, strict=True)
                                 when lit starts with the quote character (code 34) and the closing quote is the last character
                                 of lit; None when the scanner raises or lit is not of that shape.
   A str is a list of code points (N); lone surrogates 0xD800..0xDFFF are ordinary elements.
   Definitions only; the proofs are in proofs/JsonStrFacts.v. *)
From Curies.model Require Import Str.
Local Open Scope N_scope.

(* ---------- code point classes ---------- *)
Definition cp_valid (c : chr) : bool := c <=? 0x10FFFF.
Definition str_valid (s : str) : bool := forallb cp_valid s.
Definition is_high (c : chr) : bool := (0xD800 <=? c) && (c <=? 0xDBFF).
Definition is_low (c : chr) : bool := (0xDC00 <=? c) && (c <=? 0xDFFF).

(* s has no high surrogate immediately followed by a low surrogate *)
Fixpoint no_surrogate_pair (s : str) : bool :=
  match s with
  | [] => true
  | c :: t =>
      match t with
      | [] => true
      | d :: _ => negb (is_high c && is_low d) && no_surrogate_pair t
      end
  end.

(* Py_UNICODE_JOIN_SURROGATES *)
Definition join_surrogates (hi lo : chr) : chr := 0x10000 + (hi - 0xD800) * 1024 + (lo - 0xDC00).

(* what reading a str as UTF-16 does: every high surrogate immediately followed by a low
   surrogate is replaced by the code point they denote, left to right *)
Fixpoint utf16_join (s : str) : str :=
  match s with
  | [] => []
  | c :: t =>
      match t with
      | [] => [c]
      | d :: t' =>
          if is_high c && is_low d then join_surrogates c d :: utf16_join t'
          else c :: utf16_join t
      end
  end.

(* ---------- encoder ---------- *)
(* the n-th character of 0123456789abcdef *)
Definition hexdigit (n : N) : chr := if n <? 10 then 48 + n else 87 + n.
(* the four lower-case hex digits of n mod 0x10000 *)
Definition hex4 (n : N) : str :=
  [hexdigit ((n / 4096) mod 16); hexdigit ((n / 256) mod 16); hexdigit ((n / 16) mod 16); hexdigit (n mod 16)].
(* '\\u{0:04x}'.format(n) *)
Definition u_escape (n : N) : str := 92 :: 117 :: hex4 n.

(* the escapes common to both encoders: quote (34), backslash (92), and the control characters *)
Definition esc_basic (c : chr) : option str :=
  if c =? 34 then Some [92; 34]          (* \ quote *)
  else if c =? 92 then Some [92; 92]     (* \\ *)
  else if c =? 10 then Some [92; 110]    (* \n *)
  else if c =? 13 then Some [92; 114]    (* \r *)
  else if c =? 9 then Some [92; 116]     (* \t *)
  else if c =? 8 then Some [92; 98]      (* \b *)
  else if c =? 12 then Some [92; 102]    (* \f *)
  else if c <? 32 then Some (u_escape c)
  else None.

(* one code point of the output.  ensure_ascii: everything outside ' '..'~' (so 0x7F too) is
   escaped; above 0xFFFF as the UTF-16 pair  0xd800 | ((v >> 10) & 0x3ff),  0xdc00 | (v & 0x3ff)
   with v = c - 0x10000. *)
Definition esc_char (ascii : bool) (c : chr) : str :=
  match esc_basic c with
  | Some e => e
  | None =>
      if ascii && (126 <? c) then
        if c <? 0x10000 then u_escape c
        else let v := c - 0x10000 in
             u_escape (0xD800 + (v / 1024) mod 1024) ++ u_escape (0xDC00 + v mod 1024)
      else [c]
  end.

Definition json_encode_str (ascii : bool) (s : str) : str :=
  34 :: flat_map (esc_char ascii) s ++ [34].

(* ---------- decoder ---------- *)
Definition hexval (c : chr) : option N :=
  if (48 <=? c) && (c <=? 57) then Some (c - 48)
  else if (97 <=? c) && (c <=? 102) then Some (c - 87)
  else if (65 <=? c) && (c <=? 70) then Some (c - 55)
  else None.

Definition hex4val (a b c d : chr) : option N :=
  match hexval a, hexval b, hexval c, hexval d with
  | Some x, Some y, Some z, Some w => Some (((x * 16 + y) * 16 + z) * 16 + w)
  | _, _, _, _ => None
  end.

(* BACKSLASH: the one-character escapes *)
Definition unescape1 (e : chr) : option chr :=
  if e =? 34 then Some 34          (* \ quote *)
  else if e =? 92 then Some 92     (* \\ *)
  else if e =? 47 then Some 47     (* \/ *)
  else if e =? 98 then Some 8      (* \b *)
  else if e =? 102 then Some 12    (* \f *)
  else if e =? 110 then Some 10    (* \n *)
  else if e =? 114 then Some 13    (* \r *)
  else if e =? 116 then Some 9     (* \t *)
  else None.

(* the text starts with a \uXXXX escape of a low surrogate: its value *)
Definition low_escape (t : str) : option N :=
  match t with
  | b :: u :: g1 :: g2 :: g3 :: g4 :: _ =>
      if (b =? 92) && (u =? 117) then
        match hex4val g1 g2 g3 g4 with
        | Some u2 => if is_low u2 then Some u2 else None
        | None => None
        end
      else None
  | _ => None
  end.

(* scan_body s: s is the text after the opening quote.  Some r: the closing quote is the last
   character of s and r is the decoded content. *)
Fixpoint scan_body (s : str) : option str :=
  match s with
  | [] => None                                           (* unterminated string *)
  | c :: t =>
      if c =? 34 then match t with [] => Some [] | _ :: _ => None end
      else if c =? 92 then
        match t with
        | [] => None
        | e :: t1 =>
            if e =? 117 then
              match t1 with
              | h1 :: h2 :: h3 :: h4 :: t2 =>
                  match hex4val h1 h2 h3 h4 with
                  | None => None                         (* invalid \uXXXX escape *)
                  | Some u1 =>
                      match (if is_high u1 then low_escape t2 else None) with
                      | Some u2 =>
                          match t2 with
                          | _ :: _ :: _ :: _ :: _ :: _ :: t3 =>
                              option_map (cons (join_surrogates u1 u2)) (scan_body t3)
                          | _ => None
                          end
                      | None => option_map (cons u1) (scan_body t2)
                      end
                  end
              | _ => None
              end
            else
              match unescape1 e with
              | Some c' => option_map (cons c') (scan_body t1)
              | None => None                             (* invalid \escape *)
              end
        end
      else if c <? 32 then None                          (* invalid control character (strict) *)
      else option_map (cons c) (scan_body t)
  end.

Definition json_decode_str (lit : str) : option str :=
  match lit with
  | q :: body => if q =? 34 then scan_body body else None
  | [] => None
  end.

(* ---------- the strings on which decode (encode ascii s) = s ---------- *)
(* ensure_ascii=False: every str.  ensure_ascii=True: code points of a Python str and no high
   surrogate immediately followed by a low surrogate. *)
Definition json_rt_ok (ascii : bool) (s : str) : bool :=
  negb ascii || (str_valid s && no_surrogate_pair s).

(* all characters in ' '..'~' : what ensure_ascii=True promises about the output *)
Definition json_ascii_only (s : str) : bool := forallb (fun c => (32 <=? c) && (c <=? 126)) s.

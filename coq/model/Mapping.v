(* curies.mapping_service: the triples oracle (_expand_pair_all / triples) and Accept-header negotiation
   (_handle_part / parse_header / handle_header).  rdflib's SPARQL engine and the web stacks are runtime. *)
From Curies.model Require Export Query Spec CheckQ Optimize.

(* ---- equivalent URIs ---- *)
Section Oracle.
Variable invalid_c : chr -> bool.            (* membership in rdflib.term._invalid_uri_chars *)
Definition valid_uri (u : str) : bool := negb (existsb invalid_c u).
(* MappingServiceGraph._expand_pair_all *)
Definition equivalents (c : conv) (u : str) : list str :=
  match parse_uri_core c u with
  | None => []
  | Some (p, i) => match expand_pair_all c p i true with
                   | Val (Some l) => filter valid_uri l
                   | _ => [] end
  end.
(* triples((s, p, o)): which side is bound; is_pred = the predicate is one of the configured ones *)
Definition triples_for (c : conv) (is_pred : bool) (u : str) : list str := if is_pred then equivalents c u else [].
End Oracle.

(* MappingServiceGraph.triples((s, p, o)), every position a term or None (a variable).  eqv stands for _expand_pair_all; preds are
   the configured predicates (query_predicates).  The pattern's own predicate is the one the triples carry. *)
Definition tpat : Type := (option str * option str) * option str.
Definition triple : Type := (str * str) * str.
Section Triples.
Variable eqv : str -> list str.
Definition triples (preds : list str) (pat : tpat) : list triple :=
  match pat with
  | (s, Some p, o) =>
      if existsb (str_eqb p) preds then
        match s, o with
        | None, Some ob => map (fun x => (x, p, ob)) (eqv ob)
        | Some sb, None => map (fun x => (sb, p, x)) (eqv sb)
        | _, _ => []
        end
      else []
  | (_, None, _) => []
  end.
Definition pos_match (q : option str) (x : str) : bool := match q with None => true | Some y => str_eqb y x end.
Definition tmatch (pat : tpat) (t : triple) : bool :=
  match pat, t with (s, p, o), (ts, tp, tob) => pos_match s ts && pos_match p tp && pos_match o tob end.
End Triples.

(* ---- Accept header ---- *)
Definition is_ows (c : chr) : bool := N.eqb c 32 || N.eqb c 9.
Fixpoint lstrip (s : str) : str := match s with c :: t => if is_ows c then lstrip t else s | [] => [] end.
Definition strip (s : str) : str := rev (lstrip (rev (lstrip s))).
(* s.split(sep) for a one-character separator *)
Fixpoint split1 (sep : chr) (s : str) (cur : str) : list str :=
  match s with
  | [] => [rev cur]
  | c :: t => if N.eqb c sep then rev cur :: split1 sep t [] else split1 sep t (c :: cur)
  end.
Definition split_on (sep : chr) (s : str) : list str := split1 sep s [].

(* q-values: decimal strings, kept exact as numerator / 10^digits *)
Fixpoint digits_val (s : str) (acc : N) : option N :=
  match s with
  | [] => Some acc
  | c :: t => if (48 <=? c)%N && (c <=? 57)%N then digits_val t (acc * 10 + (c - 48))%N else None
  end.
Definition parse_q (s : str) : option (N * N) :=
  match partition [46%N] s with
  | None => match s with [] => None | _ => option_map (fun n => (n, 1%N)) (digits_val s 0) end
  | Some (a, b) => match a, b with
                   | [], [] => None
                   | _, _ => match digits_val a 0, digits_val b 0 with
                             | Some x, Some y => Some (x * 10 ^ N.of_nat (length b) + y, 10 ^ N.of_nat (length b))%N
                             | _, _ => None end
                   end
  end.
Definition q_geb (a b : N * N) : bool := (fst b * snd a <=? fst a * snd b)%N.      (* a >= b *)

Definition lower_ascii (c : chr) : chr := if (65 <=? c)%N && (c <=? 90)%N then (c + 32)%N else c.
(* _handle_part: (media type, q) ; None = float() would raise *)
Definition handle_part (part : str) : option (str * (N * N)) :=
  match map strip (split_on 59%N part) with
  | [] => None
  | key :: params =>
      let fix go (ps : list str) : option (N * N) :=
        match ps with
        | [] => Some (1, 1)%N
        | p :: rest =>
            let '(name, value) := match partition [61%N] p with Some (n, v) => (n, v) | None => (p, []) end in
            if str_eqb (map lower_ascii (strip name)) [113%N] then parse_q (strip value) else go rest
        end in
      option_map (fun q => (key, q)) (go params)
  end.

(* dict(...): a repeated key keeps its first position and takes the last value *)
Fixpoint qset (k : str) (q : N * N) (d : list (str * (N * N))) : list (str * (N * N)) :=
  match d with
  | [] => [(k, q)]
  | (k', q') :: d' => if str_eqb k k' then (k', q) :: d' else (k', q') :: qset k q d'
  end.
(* sorted(parts, key=parts.__getitem__, reverse=True): stable, descending *)
Fixpoint insert_desc (x : str * (N * N)) (l : list (str * (N * N))) : list (str * (N * N)) :=
  match l with
  | [] => [x]
  | y :: l' => if q_geb (snd x) (snd y) then x :: l else y :: insert_desc x l'
  end.
Definition sort_desc (l : list (str * (N * N))) : list (str * (N * N)) := fold_right insert_desc [] l.

Definition parse_header (h : str) : option (list str) :=
  let parts := map handle_part (split_on 44%N h) in
  match all_some parts with
  | None => None                      (* malformed q-value: ValueError *)
  | Some ps => Some (map fst (sort_desc (fold_left (fun d kq => qset (fst kq) (snd kq) d) ps [])))
  end.

Section Tables.
Variables (default_ct : str) (supported : list str) (synonyms : list (str * str)).
Definition canonical (t : str) : str := match dget t synonyms with Some s => s | None => t end.
(* handle_header *)
Definition handle_header (h : option str) : option str :=
  match h with
  | None | Some [] => Some default_ct
  | Some hs =>
      match parse_header hs with
      | None => None
      | Some parts => match List.find (fun t => mem (canonical t) supported) parts with
                      | Some t => Some (canonical t)
                      | None => Some default_ct end
      end
  end.
End Tables.

Definition ct_json : str := [97;112;112;108;105;99;97;116;105;111;110;47;115;112;97;114;113;108;45;114;101;115;117;108;116;115;43;106;115;111;110]%N.
Definition ct_xml : str := [97;112;112;108;105;99;97;116;105;111;110;47;115;112;97;114;113;108;45;114;101;115;117;108;116;115;43;120;109;108]%N.
Definition ct_csv : str := [97;112;112;108;105;99;97;116;105;111;110;47;115;112;97;114;113;108;45;114;101;115;117;108;116;115;43;99;115;118]%N.
Definition default_content_type : str := ct_xml.
Definition supported_content_types : list str := [ct_json; ct_xml; ct_csv].
Definition content_type_synonyms : list (str * str) :=
  [([97;112;112;108;105;99;97;116;105;111;110;47;106;115;111;110]%N, ct_json);      (* application/json *)
   ([116;101;120;116;47;106;115;111;110]%N, ct_json);                                (* text/json *)
   ([97;112;112;108;105;99;97;116;105;111;110;47;120;109;108]%N, ct_xml);            (* application/xml *)
   ([116;101;120;116;47;120;109;108]%N, ct_xml);                                     (* text/xml *)
   ([116;101;120;116;47;99;115;118]%N, ct_csv)].                                     (* text/csv *)
Definition negotiate := handle_header default_content_type supported_content_types content_type_synonyms.

(* ---- specification of the negotiation: highest q among the supported (or synonym) types, first listed on ties ---- *)
Definition header_items (h : str) : option (list (str * (N * N))) :=
  match all_some (map handle_part (split_on 44%N h)) with
  | None => None
  | Some ps => Some (fold_left (fun d kq => qset (fst kq) (snd kq) d) ps [])
  end.
Fixpoint best (supported : list str) (synonyms : list (str * str)) (l : list (str * (N * N))) : option (str * (N * N)) :=
  match l with
  | [] => None
  | x :: l' =>
      if mem (canonical synonyms (fst x)) supported then
        match best supported synonyms l' with
        | Some y => if q_geb (snd x) (snd y) then Some x else Some y
        | None => Some x end
      else best supported synonyms l'
  end.
Definition spec_negotiate (h : option str) : option str :=
  match h with
  | None | Some [] => Some default_content_type
  | Some hs => match header_items hs with
               | None => None
               | Some items => match best supported_content_types content_type_synonyms items with
                               | Some x => Some (canonical content_type_synonyms (fst x))
                               | None => Some default_content_type end
               end
  end.

(* ---- what the property's statement demands of the negotiation: "the client's highest-q supported type"; WHICH of several
   supported types with the same highest q is chosen is not specified.  a = the observed answer (None = the call raised) ---- *)
Definition item_supported (x : str * (N * N)) : bool :=
  mem (canonical content_type_synonyms (fst x)) supported_content_types.
Definition supported_items (items : list (str * (N * N))) : list (str * (N * N)) := filter item_supported items.
(* t is one of the supported items and its q is >= the q of every supported item *)
Definition is_top (sup : list (str * (N * N))) (t : str * (N * N)) : bool := forallb (fun u => q_geb (snd t) (snd u)) sup.
Definition negotiate_acceptable (h : option str) (a : option str) : bool :=
  match h with
  | None | Some [] => match a with Some x => str_eqb x default_content_type | None => false end
  | Some hs =>
      match header_items hs with
      | None => match a with None => true | Some _ => false end        (* malformed q-value: the implementation raises *)
      | Some items =>
          match a with
          | None => false
          | Some x =>
              match supported_items items with
              | [] => str_eqb x default_content_type
              | sup => existsb (fun t => str_eqb x (canonical content_type_synonyms (fst t)) && is_top sup t) sup
              end
          end
      end
  end.
(* no two supported items have equal q: then negotiate_acceptable determines the answer (negotiate_acceptable_unique) *)
Fixpoint no_ties (l : list (str * (N * N))) : bool :=
  match l with
  | [] => true
  | x :: l' => forallb (fun y => negb (q_geb (snd x) (snd y) && q_geb (snd y) (snd x))) l' && no_ties l'
  end.
Definition header_no_ties (h : option str) : bool :=
  match h with
  | None => true
  | Some hs => match header_items hs with Some items => no_ties (supported_items items) | None => true end
  end.

(* ---- driver entry ----
   case = [records; invalid chars; queries [[uri; is_pred]]; headers [opt str];
           per query: what converter.expand_all(converter.compress(uri)) answers on the implementation (None when compress gives None)
           -- the property is stated relative to these two methods]
   obs  = [per query: [answers with ?s bound, VALUES inside; ?s bound, VALUES after; ?o bound inside; ?o bound after] (each sorted);
           per header: negotiated type; per algebra tree: the tree after the implementation's _optimize_node;
           per triple pattern: the triples graph.triples yields, in order] *)
Record scase := { sc_recs : list record; sc_invalid : str; sc_queries : list (str * bool); sc_headers : list (option str);
                  sc_renderings : list (option (list str));
                  sc_trees : list alg;          (* algebra trees of the queries as rdflib translates them, before _optimize_node *)
                  sc_preds : list str;          (* the configured predicates *)
                  sc_pats : list tpat }.        (* triple patterns handed to graph.triples directly *)
Definition as_tpat (v : val) : option tpat :=
  match v with
  | VList [a; b; c] => match as_opt as_str a, as_opt as_str b, as_opt as_str c with
                       | Some s, Some p, Some o => Some (s, p, o)
                       | _, _, _ => None end
  | _ => None
  end.
Definition as_query_entry (v : val) : option (str * bool) :=
  match v with VList [VStr u; VInt b] => Some (u, negb (Z.eqb b 0)) | _ => None end.
Definition decode_scase (v : val) : option scase :=
  match v with
  | VList (rs :: VStr inv :: qs :: hs :: rd :: tail) =>
      (* tail: a sixth element (how the harness staged the requests) is not the model's business; a seventh holds the algebra trees *)
      let trees := match tail with _ :: ts :: _ => as_list_of as_alg ts | _ => Some [] end in
      (* an eighth element says which kind of `predicates` argument configured the graph (harness business); a ninth holds the
         configured predicates and the triple patterns *)
      let tp := match tail with _ :: _ :: _ :: VList [ps; pats] :: _ =>
                  match as_strs ps, as_list_of as_tpat pats with Some a, Some b => Some (a, b) | _, _ => None end
                | _ => Some ([], []) end in
      match as_records rs, as_list_of as_query_entry qs, as_list_of (as_opt as_str) hs, as_list_of (as_opt as_strs) rd, trees, tp with
      | Some rs', Some qs', Some hs', Some rd', Some ts', Some (ps', pats') =>
          Some {| sc_recs := rs'; sc_invalid := inv; sc_queries := qs'; sc_headers := hs'; sc_renderings := rd'; sc_trees := ts';
                  sc_preds := ps'; sc_pats := pats' |}
      | _, _, _, _, _, _ => None end
  | _ => None
  end.
Definition inv_of (k : scase) : chr -> bool := fun c => existsb (N.eqb c) (sc_invalid k).
Definition vsorted (l : list str) : val := vstrs (sort_str l).
Definition spec_equivalents (inv : chr -> bool) (rs : list record) (u : str) : list str :=
  match longest_match rs u with
  | Some (p, r) => filter (valid_uri inv) (map (fun up => up ++ skipn (length p) u) (all_uris r))
  | None => []
  end.
(* the answer the property demands, given what expand_all(compress(u)) answers *)
Definition rel_answer (inv : chr -> bool) (is_pred : bool) (rendering : option (list str)) : list str :=
  if is_pred then match rendering with Some l => filter (valid_uri inv) l | None => [] end else [].
(* _expand_pair_all on the URI of one of the case's queries, relative to what expand_all(compress(u)) answers there *)
Definition eqv_of (k : scase) (u : str) : list str :=
  match List.find (fun qr : (str * bool) * option (list str) => str_eqb (fst (fst qr)) u) (combine (sc_queries k) (sc_renderings k)) with
  | Some (_, r) => rel_answer (inv_of k) true r
  | None => []
  end.
Definition vtriple (t : triple) : val := match t with (s, p, o) => VList [VStr s; VStr p; VStr o] end.
Definition model_sobs (k : scase) : val :=
  VList [VList (map (fun qr : (str * bool) * option (list str) =>
                       let a := vsorted (rel_answer (inv_of k) (snd (fst qr)) (snd qr)) in VList [a; a; a; a])
                    (combine (sc_queries k) (sc_renderings k)));
         VList (map (fun h => vopt VStr (negotiate h)) (sc_headers k));
         VList (map (fun t => valg (opt t)) (sc_trees k));
         (* what graph.triples(pattern) yields, in order *)
         VList (map (fun pat => VList (map vtriple (triples (eqv_of k) (sc_preds k) pat))) (sc_pats k))].
Definition P_C18 (k : scase) (o : val) : bool :=
  match o with
  | VList [VList qa; VList ha; VList ta; VList _] =>
      Nat.eqb (length qa) (length (sc_queries k)) && Nat.eqb (length ha) (length (sc_headers k)) &&
      (* the algebra trees after the real _optimize_node and the triples that graph.triples yields are part of "implementation =
         model" (the model computes opt and triples, which C18_opt_* and C18_triples_* characterise), not of the property: another
         rewriting, or another way of feeding the SPARQL engine, that answers the same would not violate C18 *)
      forallb (fun qa : ((str * bool) * option (list str)) * val => let '(qr, a) := qa in
                 let expected := vsorted (rel_answer (inv_of k) (snd (fst qr)) (snd qr)) in
                 val_eqb a (VList [expected; expected; expected; expected])) (combine (combine (sc_queries k) (sc_renderings k)) qa)
      (* the negotiated type: any supported type of highest q (ties are not decided by the property's statement) *)
      && forallb (fun ha : option str * val => let '(h, a) := ha in
                    match a with
                    | VNone => negotiate_acceptable h None
                    | VSome (VStr x) => negotiate_acceptable h (Some x)
                    | _ => false end) (combine (sc_headers k) ha)
  | _ => false
  end.
Definition header_ok (h : option str) : bool :=
  match h with
  | None => true
  | Some hs => forallb (fun c => ((33 <=? c) && (c <=? 126) || is_ows c)%N) hs
               && match header_items hs with Some _ => true | None => false end
  end.
Definition valid_s (k : scase) : bool :=
  forallb header_ok (sc_headers k) && Nat.eqb (length (sc_renderings k)) (length (sc_queries k)).
Definition run_mapping (case obs : val) : val :=
  match decode_scase case with
  | None => VList [VInt (-1)]
  | Some k =>
      let m := model_sobs k in
      let same := val_eqb m obs in
      VList [vbool same; vbool (valid_s k); vbool (P_C18 k m); vbool (P_C18 k obs); if same then VList [] else m]
  end.

(* Writers and their readers: extended prefix map (abstract JSON), JSON-LD context, SHACL lines (with a model of the
   Turtle short-string lexer), TSV lines (csv minimal quoting).  json, pathlib, rdflib and csv are runtime. *)
From Curies.model Require Export Conv Loaders Spec CheckQ.

(* ---- extended prefix map ---- *)
Inductive jval := JStr (s : str) | JList (l : list str).
Definition k_prefix : str := [112;114;101;102;105;120]%N.
Definition k_uri_prefix : str := [117;114;105;95;112;114;101;102;105;120]%N.
Definition k_psyn : str := [112;114;101;102;105;120;95;115;121;110;111;110;121;109;115]%N.
Definition k_usyn : str := [117;114;105;95;112;114;101;102;105;120;95;115;121;110;111;110;121;109;115]%N.
Definition k_pattern : str := [112;97;116;116;101;114;110]%N.

(* _record_to_dict *)
Definition record_to_dict (r : record) : list (str * jval) :=
  [(k_prefix, JStr (r_prefix r)); (k_uri_prefix, JStr (r_uri r))]
  ++ (match r_psyn r with [] => [] | l => [(k_psyn, JList (sort_str l))] end)
  ++ (match r_usyn r with [] => [] | l => [(k_usyn, JList (sort_str l))] end)
  ++ (match r_pat r with None => [] | Some p => [(k_pattern, JStr p)] end).
Fixpoint jget (k : str) (d : list (str * jval)) : option jval :=
  match d with [] => None | (k', v) :: d' => if str_eqb k k' then Some v else jget k d' end.
(* one Record per dictionary: missing synonym lists default to [], a missing pattern to None *)
Definition record_of_dict (d : list (str * jval)) : option record :=
  match jget k_prefix d, jget k_uri_prefix d with
  | Some (JStr p), Some (JStr u) =>
      Some {| r_prefix := p; r_uri := u;
              r_psyn := match jget k_psyn d with Some (JList l) => l | _ => [] end;
              r_usyn := match jget k_usyn d with Some (JList l) => l | _ => [] end;
              r_pat := match jget k_pattern d with Some (JStr s) => Some s | _ => None end |}
  | _, _ => None
  end.
Definition normalise (r : record) : record :=
  {| r_prefix := r_prefix r; r_uri := r_uri r; r_psyn := sort_str (r_psyn r); r_usyn := sort_str (r_usyn r); r_pat := r_pat r |}.

(* ---- JSON-LD context ---- *)
Definition jsonld_context (rs : list record) (expand include_synonyms : bool) : list (str * term) :=
  fold_left (fun ctx r =>
     let t := if expand then TPrefix (r_uri r) else TStr (r_uri r) in
     fold_left (fun ctx p => dset p t ctx) (r_prefix r :: (if include_synonyms then r_psyn r else [])) ctx) rs [].

(* ---- SHACL ---- *)
Definition backslash : chr := 92%N.
Definition escape_bs (s : str) : str := replace1 backslash [backslash; backslash] s.
(* body of a Turtle short string "...": rdflib's unescaping; None = syntax error *)
Fixpoint turtle_unescape (s : str) : option str :=
  match s with
  | [] => Some []
  | c :: t =>
      if N.eqb c 34 || N.eqb c 10 || N.eqb c 13 then None                   (* bare quote / raw newline ends or breaks the literal *)
      else if N.eqb c backslash then
        match t with
        | e :: t' =>
            let k := fun ch => option_map (cons ch) (turtle_unescape t') in
            if N.eqb e backslash then k backslash else if N.eqb e 34 then k 34%N else if N.eqb e 39 then k 39%N
            else if N.eqb e 110 then k 10%N else if N.eqb e 116 then k 9%N else if N.eqb e 114 then k 13%N
            else if N.eqb e 98 then k 8%N else if N.eqb e 102 then k 12%N else None        (* \u / \U not produced by the writer *)
        | [] => None
        end
      else option_map (cons c) (turtle_unescape t)
  end.
(* what load_shacl reads from one line written by _get_shacl_line: (prefix, namespace, pattern) *)
Definition shacl_line_fields (p u : str) (pat : option str) : list str :=
  [escape_bs p; escape_bs u] ++ match pat with Some (c :: s) => [escape_bs (c :: s)] | _ => [] end.
Definition shacl_read (fields : list str) : option (list str) := all_some (map turtle_unescape fields).

(* ---- TSV ---- *)
(* csv.writer, QUOTE_MINIMAL, delimiter tab: a field is quoted iff it contains the delimiter, the quote char, CR or LF *)
Definition needs_quote (f : str) : bool := existsb (fun c => N.eqb c 9 || N.eqb c 34 || N.eqb c 13 || N.eqb c 10) f.
Definition tsv_line (p u : str) : option str := if needs_quote p || needs_quote u then None else Some (p ++ [9%N] ++ u).
Definition split_tab (line : str) : list str :=
  (fix go (s cur : str) : list str :=
     match s with [] => [rev cur] | c :: t => if N.eqb c 9 then rev cur :: go t [] else go t (c :: cur) end) line [].

(* ---- driver entry ----
   case = [records; fmt (0 epm, 1 jsonld, 2 shacl, 3 tsv); include_synonyms; expand]
   obs  = what the real write + load round trip produced:
     epm:    records read back (sorted by prefix)
     jsonld: prefix_map of the converter read back (sorted items)   [strict load when no synonyms are written]
     shacl:  [prefix_map; pattern_map] of the converter read back
     tsv:    rows read back as a prefix map (sorted items) *)
Definition pm_items (rs : list record) (syn : bool) : list (str * str) :=
  flat_map (fun r => map (fun p => (p, r_uri r)) (r_prefix r :: (if syn then r_psyn r else []))) rs.
Definition model_wobs (rs : list record) (fmt : Z) (syn expand : bool) : val :=
  (if fmt =? 0 then
     match all_some (map (fun r => record_of_dict (record_to_dict r)) rs) with
     | Some rs' => VList (map vrecord (sort_records rs'))
     | None => VList [VInt (-1)] end
   else if fmt =? 1 then vdict (jsonld_prefix_map (jsonld_context rs expand syn))
   else if fmt =? 2 then
     match all_some (map (fun r => shacl_read (shacl_line_fields (r_prefix r) (r_uri r) (r_pat r))) rs) with
     | Some _ => VList [vdict (dict_of (pm_items rs syn));
                        vdict (dict_of (flat_map (fun r => match nonempty_pat r with Some p => [(r_prefix r, p)] | None => [] end) rs))]
     | None => VList [VInt (-1)] end
   else
     match all_some (map (fun r => tsv_line (r_prefix r) (r_uri r)) rs) with
     | Some lines => vdict (dict_of (flat_map (fun l => match split_tab l with [p; u] => [(p, u)] | _ => [] end) lines))
     | None => VList [VInt (-1)] end)%Z.

(* the quantifier domains *)
Definition printable_ok (s : str) : bool :=
  forallb (fun c => (32 <=? c)%N && negb (N.eqb c 127) && negb (N.eqb c 34) && negb (N.eqb c 60) && negb (N.eqb c 62)
                    && negb ((128 <=? c) && (c <=? 159))%N) s.
Definition valid_wr (rs : list record) (fmt : Z) : bool :=
  strict_okb rs &&
  (if fmt =? 0 then true
   else if fmt =? 1 then forallb (fun r => forallb jsonld_key_ok (all_prefixes r)) rs
   else if fmt =? 2 then negb (is_nil rs) && forallb (fun r => forallb printable_ok (all_prefixes r) && printable_ok (r_uri r)
                                                                 && match r_pat r with Some p => printable_ok p | None => true end) rs
   else forallb (fun r => printable_ok (r_prefix r) && printable_ok (r_uri r)) rs)%Z.

(* The property stated on the records alone (no writer, no reader, no escaping): what must be read back.
     epm:    the records with their synonym lists sorted        jsonld: the written (prefix, URI prefix) pairs
     shacl:  those pairs as a dictionary, and the non-empty patterns      tsv: the canonical pairs as a dictionary *)
Definition spec_wobs (rs : list record) (fmt : Z) (syn : bool) : val :=
  (if fmt =? 0 then VList (map vrecord (sort_records (map normalise rs)))
   else if fmt =? 1 then vdict (pm_items rs syn)
   else if fmt =? 2 then
     VList [vdict (dict_of (pm_items rs syn));
            vdict (dict_of (flat_map (fun r => match nonempty_pat r with Some p => [(r_prefix r, p)] | None => [] end) rs))]
   else vdict (dict_of (map (fun r => (r_prefix r, r_uri r)) rs)))%Z.

(* an optional fifth element says how the harness built the converter (constructor / incrementally / by merges); ignored *)
Definition run_writers4 (rs : val) (fmt syn ex : Z) (obs : val) : val :=
  match as_records rs with
  | Some rs' =>
      let m := model_wobs rs' fmt (negb (Z.eqb syn 0)) (negb (Z.eqb ex 0)) in
      let same := val_eqb m obs in
      let P := fun o => val_eqb o (spec_wobs rs' fmt (negb (Z.eqb syn 0))) in      (* C14_P_model: P m holds on every valid case *)
      VList [vbool same; vbool (valid_wr rs' fmt); vbool (P m); vbool (P obs); if same then VList [] else m]
  | None => VList [VInt (-1)] end.
Definition run_writers (case obs : val) : val :=
  match case with
  | VList [rs; VInt fmt; VInt syn; VInt ex] => run_writers4 rs fmt syn ex obs
  | VList [rs; VInt fmt; VInt syn; VInt ex; VInt _] => run_writers4 rs fmt syn ex obs
  | _ => VList [VInt (-1)]
  end.

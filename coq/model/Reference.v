(* ReferenceTuple, Reference, NamableReference, NamedReference: parse / print / compare / hash; validation against a
   converter; a triples row.  pydantic (frozen models, JSON) and csv are runtime.  No proofs here. *)
From Curies.model Require Export Query Spec CheckQ Csv.

Inductive rclass := CTuple | CRef | CNamable | CNamed.
Record reference := { rf_cls : rclass; rf_prefix : str; rf_id : str; rf_name : option str }.

Definition colon : str := [58%N].
(* cls.from_curie(s, sep=...) : split at the first separator *)
Definition from_curie (sep s : str) : res (str * str) :=
  match partition sep s with Some pi => Val pi | None => Raise ENoCURIEDelimiter end.
(* .curie : always a colon *)
Definition curie (r : reference) : str := rf_prefix r ++ colon ++ rf_id r.
Definition pair (r : reference) : str * str := (rf_prefix r, rf_id r).

Definition is_pydantic (c : rclass) : bool := match c with CTuple => false | _ => true end.
(* Reference.__eq__ : isinstance(other, Reference) and same prefix and identifier; a ReferenceTuple is a plain tuple *)
Definition ref_eq (a b : reference) : bool :=
  match rf_cls a, rf_cls b with
  | CTuple, CTuple => str_eqb (rf_prefix a) (rf_prefix b) && str_eqb (rf_id a) (rf_id b)
  | CTuple, _ | _, CTuple => false
  | _, _ => str_eqb (rf_prefix a) (rf_prefix b) && str_eqb (rf_id a) (rf_id b)
  end.
(* __lt__ : self.pair < other.pair (tuple order) *)
Definition pair_ltb (a b : str * str) : bool :=
  match str_cmp (fst a) (fst b) with Lt => true | Gt => false | Eq => str_ltb (snd a) (snd b) end.
Definition ref_lt (a b : reference) : bool := pair_ltb (pair a) (pair b).

Section Hash.
Variable hash_pair : str * str -> N.          (* Python's hash of the tuple (prefix, identifier): any function *)
Definition ref_hash (r : reference) : N := hash_pair (pair r).
End Hash.

(* Prefix._validate with a converter as validation context *)
Definition validate_ctx (c : conv) (p i : str) : res (str * str) :=
  match standardize_prefix c p true false with
  | Val (Some np) => Val (np, i)
  | Val None => Raise EOther
  | Raise e => Raise e
  end.

(* a triples row: three CURIE strings *)
Definition triple_row (s p o : reference) : list str := [curie s; curie p; curie o].
Definition row_triple (row : list str) : res (list (str * str)) :=
  match row with
  | [a; b; c] => bind (from_curie colon a) (fun x => bind (from_curie colon b) (fun y => bind (from_curie colon c) (fun z => Val [x; y; z])))
  | _ => Raise EValueError
  end.

(* insertion sort by pair: sorted(references) *)
Definition sort_refs : list reference -> list reference := sort (fun a b => negb (ref_lt b a)).

(* ---- driver entry ----
   case = [p; i; name; [p2; i2]; [p3; i3]; sep; s; opt records]
   obs  = see harness/plug_refs.py; the model computes the same vector *)
Definition vpair_res (r : res (str * str)) : val :=
  match r with Val pi => VList [VStr (fst pi); VStr (snd pi)] | Raise e => if lib_value_error e then VList [VInt 1] else VList [VInt 2] end.
Definition mk (c : rclass) (p i : str) (n : option str) := {| rf_cls := c; rf_prefix := p; rf_id := i; rf_name := n |}.
Definition classes := [CTuple; CRef; CNamable; CNamed].

Definition triples_header : list str :=
  [[115;117;98;106;101;99;116]; [112;114;101;100;105;99;97;116;101]; [111;98;106;101;99;116]]%N.     (* subject predicate object *)
Definition triples_file_roundtrip (r1 r2 r3 : reference) : val :=
  match csv_read TAB (csv_write_rows TAB [triples_header; triple_row r1 r2 r3]) with
  | Some [_; row] =>
      match row_triple row with
      | Val l => vbool (val_eqb (VList (map (fun pi => VList [VStr (fst pi); VStr (snd pi)]) l))
                                (VList (map (fun r => VList [VStr (rf_prefix r); VStr (rf_id r)]) [r1; r2; r3])))
      | Raise _ => VInt 0 end
  | _ => VInt 0       (* csv.Error (field larger than field limit), or not exactly header + one row *)
  end.

Definition model_ref_obs (p i name p2 i2 p3 i3 sep s : str) (recs : option (list record)) : val :=
  let inst := fun c => mk c p i (match c with CNamable | CNamed => Some name | _ => None end) in
  let r1 := mk CRef p i None in let r2 := mk CRef p2 i2 None in let r3 := mk CRef p3 i3 None in
  VList [
    VList (map (fun c => VStr (curie (inst c))) classes);
    VList (map (fun c => vpair_res (from_curie colon (curie (inst c)))) classes);
    VList (map (fun c => vpair_res (from_curie sep s)) classes);
    (* string validation (always ':'): Reference and NamableReference accept, NamedReference lacks its name *)
    VList [vpair_res (from_curie colon s); vpair_res (from_curie colon s);
           match from_curie colon s with Val _ => VList [VInt 1] | Raise _ => VList [VInt 1] end];
    VList [VInt 1; VInt 1; VInt 1];
    VList (map (fun a => VList (map (fun b => vbool (ref_eq (inst a) (inst b))) classes)) classes);
    vbool (ref_eq (mk CNamable p i (Some name)) (mk CNamable p i None) && ref_eq (mk CNamed p i (Some name)) (mk CNamed p i (Some (name ++ [120%N]))));
    VInt 1;
    VList [vbool (ref_lt r1 r2); vbool (ref_lt r2 r1); vbool (ref_lt r2 r3); vbool (ref_lt r1 r3); vbool (ref_lt r1 r1);
           VList (map (fun r => VList [VStr (rf_prefix r); VStr (rf_id r)]) (sort_refs [r1; r2; r3]))];
    VList [VInt 1; VInt 1; VInt 1; VInt 1];
    match recs with
    | None => VNone
    | Some rs => match mk_conv true colon rs with
                 | Val c => VSome (match from_curie colon (curie (inst CRef)) with
                                   | Val (p', i') => match validate_ctx c p' i' with
                                                     | Val pi => VList [VStr (fst pi); VStr (snd pi)]
                                                     | Raise _ => VList [VInt 1] end
                                   | Raise _ => VList [VInt 1] end)
                 | Raise _ => VSome (VList [VInt (-3)]) end
    end;
    (* triples file round trip: write_triples writes the header row and one row of three CURIEs with csv.writer (tab), read_triples
       reads the file with csv.reader (model/Csv.v: minimal quoting, the reader's state machine, the module's field size limit), skips
       the header and parses the three CURIEs; the pairs come back when every prefix is colon-free AND every CURIE fits csv's field limit *)
    triples_file_roundtrip r1 r2 r3
  ].

(* ---- the specification ----
   case: a reference (p, i) with a name, two further references (p2, i2), (p3, i3), a separator sep, a string s,
   optionally the records of a converter.  T / F are Python's True / False; [1] is "ValueError". *)
Definition T : val := VInt 1.
Definition F : val := VInt 0.
Definition value_error : val := VList [VInt 1].
(* "<=" on pairs, from the lexicographic "<" *)
Definition pair_leb (a b : str * str) : bool := negb (pair_ltb b a).
(* split at the first occurrence of sep, or ValueError when sep does not occur *)
Definition spec_split (sep s : str) : val :=
  match partition sep s with Some (a, b) => vref (a, b) | None => value_error end.

Definition spec_ref_obs (p i name p2 i2 p3 i3 sep s : str) (recs : option (list record)) : val :=
  let a := (p, i) in let b := (p2, i2) in let c := (p3, i3) in
  let printed := VStr (p ++ colon ++ i) in
  VList [
    (*  1 *) VList [printed; printed; printed; printed];                     (* the four classes print prefix:identifier *)
    (*  2 *) VList [vref a; vref a; vref a; vref a];                         (* ... and parse back to the pair *)
    (*  3 *) VList [spec_split sep s; spec_split sep s; spec_split sep s; spec_split sep s];
    (*  4 *) VList [spec_split colon s; spec_split colon s; value_error];    (* string validation; a NamedReference lacks its name *)
    (*  5 *) VList [T; T; T];
    (*  6 *) VList [VList [T; F; F; F];                                      (* ==, rows / columns: Tuple, Reference, Namable, Named *)
                    VList [F; T; T; T];
                    VList [F; T; T; T];
                    VList [F; T; T; T]];
    (*  7 *) T;                                                              (* the name never matters *)
    (*  8 *) T;
    (*  9 *) VList [vbool (pair_ltb a b); vbool (pair_ltb b a); vbool (pair_ltb b c); vbool (pair_ltb a c);
                    F;                                                       (* a < a never *)
                    VList (map vref (sort pair_leb [a; b; c]))];             (* sorted() *)
    (* 10 *) VList [T; T; T; T];
    (* 11 *) match recs with
             | None => VNone
             | Some rs => VSome (match owner_by_prefix rs p with
                                 | Some r => vref (r_prefix r, i)            (* canonical prefix, identifier unchanged *)
                                 | None => value_error end)                  (* unknown prefix *)
             end;
    (* 12 *) T                                                               (* the triples rows read back *)
  ].


Definition no_colon (p : str) : bool := negb (existsb (N.eqb 58) p).
(* the three CURIEs written to a triples file fit csv's field size limit *)
Definition curie_fits (p i : str) : bool := (N.of_nat (length (p ++ colon ++ i)) <=? csv_field_limit)%N.
Definition triples_fit (p i p2 i2 p3 i3 : str) : bool := curie_fits p i && curie_fits p2 i2 && curie_fits p3 i3.
(* the observation with its last component (the triples file round trip) replaced by True *)
Fixpoint set_last (l : list val) : list val :=
  match l with [] => [] | [_] => [VInt 1] | x :: t => x :: set_last t end.
Definition mask_last (o : val) : val := match o with VList l => VList (set_last l) | _ => o end.
Definition run_refs (case obs : val) : val :=
  match case with
  | VList [VStr p; VStr i; VStr name; VList [VStr p2; VStr i2]; VList [VStr p3; VStr i3]; VStr sep; VStr s; recs] =>
      match as_opt as_records recs with
      | None => VList [VInt (-1)]
      | Some recs' =>
          let m := model_ref_obs p i name p2 i2 p3 i3 sep s recs' in
          let same := val_eqb m obs in
          let valid := no_colon p && no_colon p2 && no_colon p3 && negb (is_nil sep)
                       && match recs' with Some rs => strict_okb rs | None => true end in
          let spec := spec_ref_obs p i name p2 i2 p3 i3 sep s recs' in
          let P := fun o => val_eqb o spec in
          (* known finding K2: a CURIE longer than csv.field_size_limit() cannot be read back by read_triples.  P_excl is the
             predicate with exactly that clause excluded on exactly those cases (C15_P_model: P m when the CURIEs fit,
             C15_P_model_excl: P_excl m on every valid case, C15_triples_long_refuted: the clause fails for the faithful model) *)
          let fit := triples_fit p i p2 i2 p3 i3 in
          let P_excl := fun o => if fit then P o else val_eqb (mask_last o) spec in
          VList [vbool same; vbool valid; vbool (P_excl m); vbool (P obs); (if same then VList [] else m); vbool (P_excl obs)]
      end
  | _ => VList [VInt (-1)]
  end.

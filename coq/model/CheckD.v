(* C19: case decoding, model observation and the executable property predicate for discover.  No proofs here. *)
From Curies.model Require Export Discovery Spec CheckQ.

(* dc_known: the records of the optional pre-existing converter (what the harness builds it from);
   dc_recog: what that converter's is_uri answers on every input URI, observed on the implementation -- "URIs the converter
   already recognises" is judged against these answers (whether is_uri itself is right is C01's business) *)
Record dcase := { dc_known : option (list record); dc_delims : list str; dc_cutoff : option nat;
                  dc_meta : str; dc_uris : list str; dc_uris2 : list str; dc_alnum : str; dc_recog : list (str * bool) }.

Definition as_nat (v : val) : option nat := match v with VInt z => Some (Z.to_nat z) | _ => None end.
Definition decode_dcase (v : val) : option dcase :=
  match v with
  | VList [kn; dl; cu; VStr meta; us; us2; VStr al; rc] =>
      match as_opt as_records kn, as_strs dl, as_opt as_nat cu, as_strs us, as_strs us2,
            as_list_of (fun e => match e with VList [VStr u; VInt b] => Some (u, negb (Z.eqb b 0)) | _ => None end) rc with
      | Some kn', Some dl', Some cu', Some us', Some us2', Some rc' =>
          Some {| dc_known := kn'; dc_delims := dl'; dc_cutoff := cu'; dc_meta := meta; dc_uris := us'; dc_uris2 := us2'; dc_alnum := al;
                  dc_recog := rc' |}
      | _, _, _, _, _, _ => None
      end
  | _ => None
  end.

Definition alnum_of (k : dcase) : chr -> bool := fun c => existsb (N.eqb c) (dc_alnum k).
Definition recog_tbl (k : dcase) : str -> bool :=
  fun u => match List.find (fun e => str_eqb u (fst e)) (dc_recog k) with Some e => snd e | None => false end.

(* observation of one discover call: [0; records; per input URI [compress u; expand (compress u)]] or [1] / [2] *)
Definition obs_discover (al : chr -> bool) (recog : str -> bool) (k : dcase) (uris : list str) : val :=
  match discover al recog (dc_delims k) (dc_cutoff k) (dc_meta k) uris with
  | Val D =>
      VList [VInt 0; VList (map vrecord (sort_records (recs D)));
             VList (map (fun u =>
               let x := compress D u false false in
               VList [vres vostr x; match x with Val (Some y) => vres vostr (expand D y false false) | _ => VList [VInt 0; VNone] end])
               (dc_uris k))]
  | Raise e => if lib_value_error e then VList [VInt 1] else VList [VInt 2]
  end.
Definition model_dobs (k : dcase) : val :=
  VList [obs_discover (alnum_of k) (recog_tbl k) k (dc_uris k); obs_discover (alnum_of k) (recog_tbl k) k (dc_uris2 k)].

(* ---- specification, written from the property text (no dictionary, no fold) ---- *)
Section Spec.
Variable al : chr -> bool.
Variable recog : str -> bool.          (* converter.is_uri of the optional pre-existing converter *)
Variable excl_github : bool.     (* true: the theorem's statement (known finding K1 excluded); false: the property as written *)

Definition recognised (u : str) : bool := recog u.
Definition skipped (u : str) : bool := recognised u || (excl_github && github_issue u).
Definition eff_delims (dl : list str) := match dl with [] => default_delimiters | _ => dl end.
(* (uri prefix, luid) of every input URI that is not skipped and ends in an alphanumeric identifier after a delimiter *)
Definition learnt (dl : list str) (uris : list str) : list (str * str) :=
  flat_map (fun u => if skipped u then [] else match classify al (eff_delims dl) u with Some pl => [pl] | None => [] end) uris.
Definition count_luids (p : str) (l : list (str * str)) : nat :=
  length (dedup (map snd (filter (fun pl => str_eqb (fst pl) p) l))).
Definition spec_prefixes (dl : list str) (cutoff : option nat) (uris : list str) : list str :=
  let l := learnt dl uris in
  filter (fun p => match cutoff with None => true | Some k => Nat.leb k (count_luids p l) end) (sort_uniq (map fst l)).
Definition spec_records (dl : list str) (cutoff : option nat) (meta : str) (uris : list str) : list record :=
  number_from 1 meta (spec_prefixes dl cutoff uris).
End Spec.
(* the recogniser of a strict converter over rs, by the naive specification *)
Definition recog_rs (known : option (list record)) : str -> bool :=
  fun u => match known with Some rs => sp_is_uri rs u | None => false end.

Definition ends_with_delim (dl : list str) (p : str) : bool := existsb (fun d => endswith d p) dl.

(* P on one observed discover call *)
Definition P_one (excl : bool) (k : dcase) (o : val) : bool :=
  let al := alnum_of k in
  match o with
  | VList [VInt 0; VList rs; VList rt] =>
      let spec := spec_records al (recog_tbl k) excl (dc_delims k) (dc_cutoff k) (dc_meta k) (dc_uris k) in
      (* exactly the specified records: named metaprefix1.. in sorted URI-prefix order, cutoff respected *)
      val_eqb (VList rs) (VList (map vrecord (sort_records spec)))
      && forallb (fun r => ends_with_delim (eff_delims (dc_delims k)) (r_uri r)) spec
      (* with no cutoff every learnable input URI compresses and expands back to itself *)
      && (match dc_cutoff k with
          | Some (S _) => true
          | _ => Nat.eqb (length rt) (length (dc_uris k)) &&
                 forallb (fun ur =>
                   let '(u, r) := ur in
                   if skipped (recog_tbl k) excl u then true
                   else match classify al (eff_delims (dc_delims k)) u with
                        | None => true
                        | Some _ => match r with
                                    | VList [VList [VInt 0; VSome (VStr x)]; e] =>
                                        (* expanding back needs a metaprefix without ':' (CURIE syntax) *)
                                        negb (delim_safe [58%N] (dc_meta k)) || val_eqb e (VList [VInt 0; VSome (VStr u)])
                                    | _ => false
                                    end
                        end) (combine (dc_uris k) rt)
          end)
  | _ => false
  end.
Definition P_C19 (excl : bool) (k : dcase) (o : val) : bool :=
  match o with
  | VList [o1; o2] =>
      P_one excl k o1
      (* a function of the SET of URIs: the permuted / duplicated list gives the same converter *)
      && match o1, o2 with
         | VList (VInt 0 :: r1 :: _), VList (VInt 0 :: r2 :: _) => val_eqb r1 r2
         | _, _ => false
         end
  | _ => false
  end.

Definition same_set (a b : list str) : bool := forallb (fun x => mem x b) a && forallb (fun x => mem x a) b.
Definition valid_d (k : dcase) : bool :=
  forallb (fun d => negb (is_nil d)) (dc_delims k) && same_set (dc_uris k) (dc_uris2 k)
  && forallb (fun u => existsb (fun e => str_eqb u (fst e)) (dc_recog k)) (dc_uris k).

(* [same; valid; P_excl(model); P_text(impl); model obs if different; P_excl(impl)] *)
Definition run_discover (case obs : val) : val :=
  match decode_dcase case with
  | None => VList [VInt (-1)]
  | Some k =>
      let m := model_dobs k in
      let same := val_eqb m obs in
      VList [vbool same; vbool (valid_d k); vbool (P_C19 true k m); vbool (P_C19 false k obs);
             if same then VList [] else m; vbool (P_C19 true k obs)]
  end.

(* A deep embedding of the fragment of Python in which the query methods of curies.api.Converter are written, with a big-step
   interpreter over the model's converter state.  translator/gen.py turns the method bodies of the working tree into terms of
   this syntax on every run (coq/gen/Gen.v, the frag sections); the FragObl files under gen prove, for every converter state and every argument,
   that the interpretation of those terms IS the hand-written model function of Query.v.  No proofs here.

   What the embedding keeps of Python: evaluation order, short-circuit `or` / `and`, truthiness (None, False, "", (), [] are false),
   `is None` tests, tuple unpacking, dict.get / dict[...] (KeyError), str + str (TypeError otherwise), try / except / else with the
   caught classes resolved by the translator against the class hierarchy of the source, bare `raise`, for loops over lists with
   early return, list.append.  What it drops: the arguments of exceptions (an exception is its class), warnings, type
   annotations, docstrings. *)
From Curies.model Require Export Query Reconcile.

Inductive pv := PNone | PBool (b : bool) | PStr (s : str) | PTup (l : list pv) | PList (l : list pv) | PRec (r : record)
| PDict (d : list (str * pv))           (* a dict with string keys, in insertion order *)
| PNewConv (rs : list record)
| PInt (n : N)
| PTrie (t : trie str).                   (* StringTrie(<dict>) *)                          (* a non-negative integer: lengths and the constants they are compared with *)          (* the result of Converter(records): the constructor itself is Conv.mk_conv, not translated *)

Inductive sdict := DPrefixMap | DSynonymToPrefix | DReversePrefixMap | DPatternMap.
Inductive attr := APrefix | AIdentifier | AUriPrefix | APrefixSynonyms | AUriPrefixSynonyms | APattern | AAllPrefixes | AAllUriPrefixes.

Inductive cmpop := CLt | CLe | CGt | CGe.
Inductive sattr := SaDelimiter | SaRecords | SaPrefixMap | SaSynonymToPrefix | SaReversePrefixMap | SaTrie | SaPatternMap.
Inductive pexp :=
| EVar (x : nat) | ENone | EBool (b : bool) | EStr (s : str)
| ESelfDelim | ESelfRecords
| EAttr (e : pexp) (a : attr)
| EDictGet (d : sdict) (k : pexp)          (* self.<d>.get(k) *)
| EDictIdx (d : sdict) (k : pexp)          (* self.<d>[k] *)
| ETrieLPI (u : pexp)                      (* self.trie.longest_prefix_item(u) *)
| EDictHas (d : sdict) (k : pexp)          (* k in self.<d> *)
| EPartition (s sep : pexp)                (* s.partition(sep) *)
| EReplace1 (s : pexp) (old : chr) (new : str)   (* s.replace(old, new) for a one-character constant old and a constant new *)
| EAdd (a b : pexp)
| ESkipLen (s v : pexp)                    (* s[len(v):] *)
| EIsNone (e : pexp) | EIsNotNone (e : pexp)
| EEq (a b : pexp) | EIn (a b : pexp) | EOr (a b : pexp) | EAnd (a b : pexp) | ENot (a : pexp)
| EIfExp (cnd a b : pexp)                  (* a if cnd else b *)
| ETuple (l : pexps) | EListLit (l : pexps) | EFmt (l : pexps)
| EDictLit (keys : list str) (vals : pexps)  (* {"k1": e1, ...} with constant string keys *)
| ESorted (e : pexp)                       (* sorted(<list of str>) *)
| ECall (f : nat) (args : pexps)           (* self.f(...) or a module-level f(...): arguments in the callee's parameter order *)
| EInt (n : N) | ELen (e : pexp)
| ECmp (op : cmpop) (a b : pexp)           (* < <= > >= on integers *)
| EStartsWith (s p : pexp) | EEndsWith (s p : pexp)
| EFilter (f : nat) (l : pexp)             (* [x for x in l if f(x)] for a one-argument function f of the table (or an oracle) *)
| ESubscr (d k : pexp)                     (* d[k] for a local dict d *)
| ESetUpd (l add : pexp) (remove : pexps)  (* sorted(set(l).union({add}).difference({remove...})) *)
| EKeysInterValues (d : pexp)              (* set(d).intersection(d.values()) *)
| ENewConv (records : pexp)                (* Converter(records) *)
| ESortedByPrefix (records : pexp)         (* sorted(records, key=lambda r: r.prefix) *)
| ETrieOf (d : pexp)                       (* StringTrie(d) for a dict of strings *)
| ESelfDict (d : sdict)                    (* self.<d> as a value *)
| EProduct (a b : pexp)                    (* itertools.product(a, b) of two lists / sets given as lists: pairs, a-major *)
| EChain (l : pexps)                       (* itertools.chain(l1, l2, ...) of lists, consumed by a for loop: their concatenation *)
| EStar (e : pexp)                         (* *e, inside an argument list only *)
with pexps := XNil | XCons (e : pexp) (r : pexps).

Inductive pstmt :=
| SAssign (x : nat) (e : pexp)
| SUnpack (xs : list nat) (e : pexp)
| SIf (cnd : pexp) (t e : pblock)
| SReturn (e : pexp)
| SRaise (e : err)
| SReraise
| STry (body : pblock) (catch : list err) (handler : pblock) (orelse : pblock)
| SFor (x : nat) (it : pexp) (body : pblock)
| SForUnpack (xs : list nat) (it : pexp) (body : pblock)   (* for a, b in it: every element is a tuple of that many values *)
| SAppend (x : nat) (e : pexp)
| SSetItem (x : nat) (key : pexp) (e : pexp)  (* x[key] = e for a dict x and a string key *)
| SRecAppend (x : nat) (a : attr) (e : pexp)  (* x.<synonym list>.append(e) for a Record held in the local x *)
| SRecSort (x : nat) (a : attr)               (* x.<synonym list>.sort() *)
| SRecSet (x : nat) (a : attr) (e : pexp)     (* x.<attribute> = e for a Record held in the local x *)
| SSelfSet (d : sdict) (k v : pexp)           (* self.<d>[k] = v : only the state-changing interpreter (execm) gives it a meaning *)
| STrieSet (k v : pexp)                       (* self.trie[k] = v *)
| SSelfAttr (a : sattr) (e : pexp)            (* self.<attribute> = e, in __init__ *)
| SPass
with pblock := BNil | BCons (s : pstmt) (r : pblock).

Record fn := { fn_nparams : nat; fn_nlocals : nat; fn_body : pblock }.

Inductive eres := EV (v : pv) | EX (e : err) | ES.                  (* value, exception, outside the fragment's semantics *)
Inductive lres := LV (l : list pv) | LX (e : err) | LS.
Inductive out := ONorm (env : list pv) | ORet (v : pv) | ORaise (e : err) | OStuck.

Definition err_tag (e : err) : N :=
  match e with
  | ENoCURIEDelimiter => 0 | EExpansion => 1 | ECompression => 2 | EPrefixStd => 3 | EIdentifierStd => 4 | ECURIEStd => 5 | EURIStd => 6
  | EDuplicateURIPrefixes => 7 | EDuplicatePrefixes => 8 | EValueError => 9 | ERecordValidation => 10
  | EDuplicateKeys => 11 | EDuplicateValues => 12 | EInconsistentMapping => 13 | ECycleDetected => 14 | ETransitive => 15
  | EKeyError => 16 | EIndexError => 17 | ETypeError => 18 | EOther => 19
  end%N.
Definition err_eqb (a b : err) : bool := N.eqb (err_tag a) (err_tag b).

Definition truthy (v : pv) : bool :=
  match v with
  | PNone => false | PBool b => b | PStr [] => false | PStr _ => true
  | PTup [] => false | PTup _ => true | PList [] => false | PList _ => true | PRec _ => true
  | PDict [] => false | PDict _ => true
  | PNewConv _ => true
  | PInt n => negb (N.eqb n 0)
  | PTrie _ => true
  end.
Definition py_len (v : pv) : option N :=
  match v with
  | PStr s => Some (N.of_nat (length s))
  | PTup l | PList l => Some (N.of_nat (length l))
  | PDict d => Some (N.of_nat (length d))
  | _ => None
  end.
Definition cmp_n (op : cmpop) (a b : N) : bool :=
  match op with CLt => N.ltb a b | CLe => N.leb a b | CGt => N.ltb b a | CGe => N.leb b a end.
Definition suffixb (p s : str) : bool := prefixb (rev p) (rev s).
Fixpoint as_recs_pv (l : list pv) : option (list record) :=
  match l with
  | [] => Some []
  | PRec r :: t => match as_recs_pv t with Some rs => Some (r :: rs) | None => None end
  | _ :: _ => None
  end.
(* a dict all of whose values are strings, as the model's association list *)
Fixpoint as_sdict_pv (d : list (str * pv)) : option (list (str * str)) :=
  match d with
  | [] => Some []
  | (k, PStr v) :: t => match as_sdict_pv t with Some m => Some ((k, v) :: m) | None => None end
  | _ :: _ => None
  end.
Definition remove_all (l : list str) (rm : list str) : list str := filter (fun x => negb (mem x rm)) l.
Fixpoint as_strs_pv (l : list pv) : option (list str) :=
  match l with
  | [] => Some []
  | PStr s :: r => match as_strs_pv r with Some rs => Some (s :: rs) | None => None end
  | _ :: _ => None
  end.

Definition upd (n : nat) (v : pv) (env : list pv) : list pv := firstn n env ++ v :: skipn (S n) env.

Definition sdict_of (c : conv) (d : sdict) : dict str :=
  match d with DPrefixMap => pmap c | DSynonymToPrefix => synmap c | DReversePrefixMap => rpmap c | DPatternMap => patmap c end.

Definition pstrs (l : list str) : pv := PList (map PStr l).

Definition get_attr (v : pv) (a : attr) : eres :=
  match v, a with
  | PTup [p; _], APrefix => EV p
  | PTup [_; i], AIdentifier => EV i
  | PRec r, APrefix => EV (PStr (r_prefix r))
  | PRec r, AUriPrefix => EV (PStr (r_uri r))
  | PRec r, APrefixSynonyms => EV (pstrs (r_psyn r))
  | PRec r, AUriPrefixSynonyms => EV (pstrs (r_usyn r))
  | PRec r, APattern => EV (match r_pat r with Some p => PStr p | None => PNone end)
  | PRec r, AAllPrefixes => EV (pstrs (all_prefixes r))            (* the property _all_prefixes: [prefix, *prefix_synonyms] *)
  | PRec r, AAllUriPrefixes => EV (pstrs (all_uris r))
  | _, _ => ES
  end.

(* == on the values the fragment compares *)
Definition simple_eq (a b : pv) : option bool :=
  match a, b with
  | PStr x, PStr y => Some (str_eqb x y)
  | PNone, PNone => Some true
  | PBool x, PBool y => Some (Bool.eqb x y)
  | PInt x, PInt y => Some (N.eqb x y)
  | PInt _, PStr _ | PStr _, PInt _ | PInt _, PNone | PNone, PInt _ => Some false
  | PStr _, PNone | PNone, PStr _ | PStr _, PBool _ | PBool _, PStr _ | PNone, PBool _ | PBool _, PNone => Some false
  | _, _ => None
  end.
Fixpoint contains (a : pv) (l : list pv) : option bool :=
  match l with
  | [] => Some false
  | x :: r => match simple_eq x a with
              | Some true => Some true
              | Some false => contains a r
              | None => None end
  end.

(* [v for v in vs if test(v)] *)
Fixpoint filter_by (test : pv -> eres) (vs : list pv) : eres :=
  match vs with
  | [] => EV (PList [])
  | v :: r => match test v with
              | EV t => match filter_by test r with
                        | EV (PList kept) => EV (PList (if truthy t then v :: kept else kept))
                        | o => o end
              | o => o end
  end.

Section Eval.
Variable c : conv.
Variable call : nat -> list pv -> eres.
Variable env : list pv.

Fixpoint eval (e : pexp) : eres :=
  match e with
  | EVar x => match nth_error env x with Some v => EV v | None => ES end
  | ENone => EV PNone
  | EBool b => EV (PBool b)
  | EStr s => EV (PStr s)
  | ESelfDelim => EV (PStr (delim c))
  | ESelfRecords => EV (PList (map PRec (recs c)))
  | EAttr e a => match eval e with EV v => get_attr v a | r => r end
  | EDictGet d k =>
      match eval k with
      | EV (PStr s) => EV (match dget s (sdict_of c d) with Some v => PStr v | None => PNone end)
      | EV (PList _) => EX ETypeError
      | EV _ => EV PNone
      | r => r end
  | EDictIdx d k =>
      match eval k with
      | EV (PStr s) => match dget s (sdict_of c d) with Some v => EV (PStr v) | None => EX EKeyError end
      | EV (PList _) => EX ETypeError
      | EV _ => EX EKeyError
      | r => r end
  | EDictHas d k =>
      match eval k with
      | EV (PStr s) => EV (PBool (dhas s (sdict_of c d)))
      | EV (PList _) => EX ETypeError
      | EV _ => EV (PBool false)
      | r => r end
  | ETrieLPI u =>
      match eval u with
      | EV (PStr s) => match lpi s (ctrie c) with
                       | Some (n, p) => EV (PTup [PStr (firstn n s); PStr p])
                       | None => EX EKeyError end
      | EV _ => ES
      | r => r end
  | EPartition s sep =>
      match eval s with
      | EV (PStr x) =>
          match eval sep with
          | EV (PStr []) => EX EValueError                     (* ValueError: empty separator *)
          | EV (PStr d) => EV (match partition d x with
                               | Some (a, b) => PTup [PStr a; PStr d; PStr b]
                               | None => PTup [PStr x; PStr []; PStr []] end)
          | EV _ => EX ETypeError
          | r => r end
      | EV _ => ES
      | r => r end
  | EReplace1 s old new =>
      match eval s with
      | EV (PStr x) => EV (PStr (replace1 old new x))
      | EV _ => ES
      | r => r end
  | EAdd a b =>
      match eval a with
      | EV va => match eval b with
                 | EV vb => match va, vb with
                            | PStr x, PStr y => EV (PStr (x ++ y))
                            | PList x, PList y => EV (PList (x ++ y))
                            | _, _ => EX ETypeError end
                 | r => r end
      | r => r end
  | ESkipLen s v =>
      match eval s with
      | EV vs => match eval v with
                 | EV vv => match vs, vv with
                            | PStr x, PStr y => EV (PStr (skipn (length y) x))
                            | _, _ => EX ETypeError end
                 | r => r end
      | r => r end
  | EIsNone e => match eval e with EV PNone => EV (PBool true) | EV _ => EV (PBool false) | r => r end
  | EIsNotNone e => match eval e with EV PNone => EV (PBool false) | EV _ => EV (PBool true) | r => r end
  | EEq a b =>
      match eval a with
      | EV va => match eval b with
                 | EV vb => match simple_eq va vb with Some r => EV (PBool r) | None => ES end
                 | r => r end
      | r => r end
  | EIn a b =>
      match eval a with
      | EV va => match eval b with
                 | EV (PList l) | EV (PTup l) => match contains va l with Some r => EV (PBool r) | None => ES end
                 | EV (PDict d) => match va with PStr k => EV (PBool (dhas k d)) | PList _ => EX ETypeError | _ => EV (PBool false) end
                 | EV (PStr hay) => match va with
                                    | PStr [] => EV (PBool true)
                                    | PStr needle => EV (PBool (Str.contains needle hay))
                                    | _ => EX ETypeError end
                 | EV _ => ES
                 | r => r end
      | r => r end
  | EOr a b => match eval a with EV va => if truthy va then EV va else eval b | r => r end
  | EAnd a b => match eval a with EV va => if truthy va then eval b else EV va | r => r end
  | ENot a => match eval a with EV va => EV (PBool (negb (truthy va))) | r => r end
  | EIfExp cnd a b => match eval cnd with EV vc => if truthy vc then eval a else eval b | r => r end
  | ETuple l => match eval_list l with LV vs => EV (PTup vs) | LX x => EX x | LS => ES end
  | EListLit l => match eval_list l with LV vs => EV (PList vs) | LX x => EX x | LS => ES end
  | EFmt l =>
      match eval_list l with
      | LV vs => (fix cat (vs : list pv) (acc : str) : eres :=
                    match vs with
                    | [] => EV (PStr acc)
                    | PStr s :: r => cat r (acc ++ s)
                    | _ :: _ => ES end) vs []
      | LX x => EX x | LS => ES end
  | EDictLit keys vals =>
      match eval_list vals with
      | LV vs => if Nat.eqb (length keys) (length vs) then EV (PDict (dict_of (combine keys vs))) else ES
      | LX x => EX x | LS => ES end
  | ESorted e =>
      match eval e with
      | EV (PList l) | EV (PTup l) => match as_strs_pv l with Some ss => EV (pstrs (sort_str ss)) | None => ES end
      | EV _ => ES
      | r => r end
  | EInt n => EV (PInt n)
  | ELen e => match eval e with EV v => match py_len v with Some n => EV (PInt n) | None => EX ETypeError end | r => r end
  | ECmp op a b =>
      match eval a with
      | EV va => match eval b with
                 | EV vb => match va, vb with PInt x, PInt y => EV (PBool (cmp_n op x y)) | _, _ => EX ETypeError end
                 | r => r end
      | r => r end
  | EStartsWith s p =>
      match eval s with
      | EV vs => match eval p with
                 | EV vp => match vs, vp with PStr x, PStr y => EV (PBool (prefixb y x)) | _, _ => ES end
                 | r => r end
      | r => r end
  | EEndsWith s p =>
      match eval s with
      | EV vs => match eval p with
                 | EV vp => match vs, vp with PStr x, PStr y => EV (PBool (suffixb y x)) | _, _ => ES end
                 | r => r end
      | r => r end
  | EFilter f l =>
      match eval l with
      | EV (PList vs) | EV (PTup vs) =>
          filter_by (fun v => call f [v]) vs
      | EV _ => ES
      | r => r end
  | ESubscr d k =>
      match eval d with
      | EV (PDict dd) => match eval k with
                         | EV (PStr ks) => match dget ks dd with Some v => EV v | None => EX EKeyError end
                         | EV (PList _) => EX ETypeError
                         | EV _ => EX EKeyError
                         | r => r end
      | EV _ => ES
      | r => r end
  | ESetUpd l add remove =>
      match eval l with
      | EV (PList ll) =>
          match as_strs_pv ll, eval add, eval_list remove with
          | Some ls, EV (PStr a), LV rm => match as_strs_pv rm with
                                           | Some rms => EV (pstrs (sort_uniq (remove_all (ls ++ [a]) rms)))
                                           | None => ES end
          | _, EX x, _ => EX x
          | _, _, LX x => EX x
          | _, _, _ => ES end
      | EV _ => ES
      | r => r end
  | EKeysInterValues d =>
      match eval d with
      | EV (PDict dd) => match as_sdict_pv dd with Some m => EV (pstrs (inter (map fst m) (map snd m))) | None => ES end
      | EV _ => ES
      | r => r end
  | ESortedByPrefix e =>
      match eval e with
      | EV (PList l) | EV (PTup l) => match as_recs_pv l with Some rs => EV (PList (map PRec (sort_records rs))) | None => ES end
      | EV _ => ES
      | r => r end
  | ETrieOf e =>
      match eval e with
      | EV (PDict dd) => match as_sdict_pv dd with Some m => EV (PTrie (trie_of m)) | None => ES end
      | EV _ => ES
      | r => r end
  | ESelfDict d => EV (PDict (map (fun kv => (fst kv, PStr (snd kv))) (sdict_of c d)))
  | ENewConv e =>
      match eval e with
      | EV (PList l) => match as_recs_pv l with Some rs => EV (PNewConv rs) | None => ES end
      | EV _ => ES
      | r => r end
  | EProduct a b =>
      match eval a with
      | EV (PList la) | EV (PTup la) =>
          match eval b with
          | EV (PList lb) | EV (PTup lb) => EV (PList (flat_map (fun x => map (fun y => PTup [x; y]) lb) la))
          | EV _ => ES
          | r => r end
      | EV _ => ES
      | r => r end
  | EChain l =>
      match eval_list l with
      | LV vs => (fix cat (vs : list pv) (acc : list pv) : eres :=
                    match vs with
                    | [] => EV (PList acc)
                    | PList x :: r | PTup x :: r => cat r (acc ++ x)
                    | _ :: _ => ES end) vs []
      | LX x => EX x | LS => ES end
  | ECall f args => match eval_list args with LV vs => call f vs | LX x => EX x | LS => ES end
  | EStar _ => ES
  end
with eval_list (l : pexps) : lres :=
  match l with
  | XNil => LV []
  | XCons (EStar e) r =>
      match eval e with
      | EV (PTup vs) | EV (PList vs) => match eval_list r with LV rest => LV (vs ++ rest) | o => o end
      | EV _ => LS
      | EX x => LX x
      | ES => LS end
  | XCons e r =>
      match eval e with
      | EV v => match eval_list r with LV rest => LV (v :: rest) | o => o end
      | EX x => LX x
      | ES => LS end
  end.
End Eval.

Definition rec_set_syn (r : record) (a : attr) (l : list str) : option record :=
  match a with
  | APrefixSynonyms => Some {| r_prefix := r_prefix r; r_uri := r_uri r; r_psyn := l; r_usyn := r_usyn r; r_pat := r_pat r |}
  | AUriPrefixSynonyms => Some {| r_prefix := r_prefix r; r_uri := r_uri r; r_psyn := r_psyn r; r_usyn := l; r_pat := r_pat r |}
  | _ => None
  end.
Definition rec_set_attr (r : record) (a : attr) (v : pv) : option record :=
  match a, v with
  | APrefix, PStr x => Some {| r_prefix := x; r_uri := r_uri r; r_psyn := r_psyn r; r_usyn := r_usyn r; r_pat := r_pat r |}
  | AUriPrefix, PStr x => Some {| r_prefix := r_prefix r; r_uri := x; r_psyn := r_psyn r; r_usyn := r_usyn r; r_pat := r_pat r |}
  | APrefixSynonyms, PList l => match as_strs_pv l with Some ls => rec_set_syn r a ls | None => None end
  | AUriPrefixSynonyms, PList l => match as_strs_pv l with Some ls => rec_set_syn r a ls | None => None end
  | _, _ => None
  end.
Definition rec_get_syn (r : record) (a : attr) : option (list str) :=
  match a with APrefixSynonyms => Some (r_psyn r) | AUriPrefixSynonyms => Some (r_usyn r) | _ => None end.

Section Exec.
Variable c : conv.
Variable call : nat -> list pv -> eres.

Fixpoint assign_all (xs : list nat) (vs : list pv) (env : list pv) : option (list pv) :=
  match xs, vs with
  | [], [] => Some env
  | x :: xr, v :: vr => assign_all xr vr (upd x v env)
  | _, _ => None
  end.

(* for v in l: step *)
Fixpoint for_loop (step : pv -> list pv -> out) (l : list pv) (env : list pv) : out :=
  match l with
  | [] => ONorm env
  | v :: r => match step v env with ONorm env' => for_loop step r env' | o => o end
  end.

Fixpoint exec (cur : option err) (s : pstmt) (env : list pv) {struct s} : out :=
  match s with
  | SAssign x e => match eval c call env e with EV v => ONorm (upd x v env) | EX x' => ORaise x' | ES => OStuck end
  | SUnpack xs e =>
      match eval c call env e with
      | EV (PTup vs) | EV (PList vs) =>
          match assign_all xs vs env with Some env' => ONorm env' | None => ORaise EValueError end   (* wrong number of values *)
      | EV _ => ORaise ETypeError
      | EX x' => ORaise x'
      | ES => OStuck end
  | SIf cnd t e =>
      match eval c call env cnd with
      | EV v => if truthy v then exec_block cur t env else exec_block cur e env
      | EX x' => ORaise x'
      | ES => OStuck end
  | SReturn e => match eval c call env e with EV v => ORet v | EX x' => ORaise x' | ES => OStuck end
  | SRaise e => ORaise e
  | SReraise => match cur with Some e => ORaise e | None => OStuck end
  | STry body catch handler orelse =>
      match exec_block cur body env with
      | ONorm env' => exec_block cur orelse env'
      | ORaise e => if existsb (err_eqb e) catch then exec_block (Some e) handler env else ORaise e
      | o => o end
  | SFor x it body =>
      match eval c call env it with
      | EV (PList l) | EV (PTup l) =>
          for_loop (fun v env => exec_block cur body (upd x v env)) l env
      | EV _ => ORaise ETypeError
      | EX x' => ORaise x'
      | ES => OStuck end
  | SForUnpack xs it body =>
      match eval c call env it with
      | EV (PList l) | EV (PTup l) =>
          for_loop (fun v env => match v with
                                 | PTup vs | PList vs => match assign_all xs vs env with
                                                         | Some env' => exec_block cur body env'
                                                         | None => ORaise EValueError end
                                 | _ => ORaise ETypeError end) l env
      | EV _ => ORaise ETypeError
      | EX x' => ORaise x'
      | ES => OStuck end
  | SAppend x e =>
      match nth_error env x with
      | Some (PList l) => match eval c call env e with EV v => ONorm (upd x (PList (l ++ [v])) env) | EX x' => ORaise x' | ES => OStuck end
      | _ => OStuck end
  | SSetItem x key e =>
      (* Python evaluates the right-hand side first, then the subscript *)
      match nth_error env x with
      | Some (PDict d) =>
          match eval c call env e with
          | EV v => match eval c call env key with
                    | EV (PStr ks) => ONorm (upd x (PDict (dset ks v d)) env)
                    | EV _ => OStuck
                    | EX x' => ORaise x'
                    | ES => OStuck end
          | EX x' => ORaise x'
          | ES => OStuck end
      | _ => OStuck end
  | SRecAppend x a e =>
      match nth_error env x with
      | Some (PRec r) =>
          match rec_get_syn r a, eval c call env e with
          | Some l, EV (PStr v) => match rec_set_syn r a (l ++ [v]) with Some r' => ONorm (upd x (PRec r') env) | None => OStuck end
          | _, EX x' => ORaise x'
          | _, _ => OStuck end
      | _ => OStuck end
  | SRecSort x a =>
      match nth_error env x with
      | Some (PRec r) =>
          match rec_get_syn r a with
          | Some l => match rec_set_syn r a (sort_str l) with Some r' => ONorm (upd x (PRec r') env) | None => OStuck end
          | None => OStuck end
      | _ => OStuck end
  | SRecSet x a e =>
      match nth_error env x with
      | Some (PRec r) =>
          match eval c call env e with
          | EV v => match rec_set_attr r a v with Some r' => ONorm (upd x (PRec r') env) | None => OStuck end
          | EX x' => ORaise x'
          | ES => OStuck end
      | _ => OStuck end
  | SSelfSet _ _ _ | STrieSet _ _ | SSelfAttr _ _ => OStuck        (* the read-only interpreter does not change the converter *)
  | SPass => ONorm env
  end
with exec_block (cur : option err) (b : pblock) (env : list pv) {struct b} : out :=
  match b with
  | BNil => ONorm env
  | BCons s r => match exec cur s env with ONorm env' => exec_block cur r env' | o => o end
  end.

Definition run_fn (f : fn) (args : list pv) : eres :=
  if Nat.eqb (length args) (fn_nparams f) then
    match exec_block None (fn_body f) (args ++ repeat PNone (fn_nlocals f)) with
    | ORet v => EV v
    | ONorm _ => EV PNone
    | ORaise e => EX e
    | OStuck => ES end
  else ES.
End Exec.

(* ---- the state-changing interpreter: the same statements, with the converter threaded through; calls (which the translated
   state-changing functions make only to read-only functions) see the converter as it is at that moment ---- *)
Inductive outm := MNorm (env : list pv) (c : conv) | MRet (v : pv) (c : conv) | MRaise (e : err) | MStuck.

Definition set_sdict (c : conv) (d : sdict) (k v : str) : conv :=
  match d with
  | DPrefixMap => {| delim := delim c; recs := recs c; pmap := dset k v (pmap c); synmap := synmap c; rpmap := rpmap c; ctrie := ctrie c; patmap := patmap c |}
  | DSynonymToPrefix => {| delim := delim c; recs := recs c; pmap := pmap c; synmap := dset k v (synmap c); rpmap := rpmap c; ctrie := ctrie c; patmap := patmap c |}
  | DReversePrefixMap => {| delim := delim c; recs := recs c; pmap := pmap c; synmap := synmap c; rpmap := dset k v (rpmap c); ctrie := ctrie c; patmap := patmap c |}
  | DPatternMap => {| delim := delim c; recs := recs c; pmap := pmap c; synmap := synmap c; rpmap := rpmap c; ctrie := ctrie c; patmap := dset k v (patmap c) |}
  end.
Definition set_trie (c : conv) (k v : str) : conv :=
  {| delim := delim c; recs := recs c; pmap := pmap c; synmap := synmap c; rpmap := rpmap c; ctrie := insert k v (ctrie c); patmap := patmap c |}.

Fixpoint for_loopm (step : pv -> list pv -> conv -> outm) (l : list pv) (env : list pv) (c : conv) : outm :=
  match l with
  | [] => MNorm env c
  | v :: r => match step v env c with MNorm env' c' => for_loopm step r env' c' | o => o end
  end.

Definition set_attr (c : conv) (a : sattr) (v : pv) : option conv :=
  match a, v with
  | SaDelimiter, PStr d => Some {| delim := d; recs := recs c; pmap := pmap c; synmap := synmap c; rpmap := rpmap c; ctrie := ctrie c; patmap := patmap c |}
  | SaRecords, PList l => match as_recs_pv l with
                          | Some rs => Some {| delim := delim c; recs := rs; pmap := pmap c; synmap := synmap c; rpmap := rpmap c; ctrie := ctrie c; patmap := patmap c |}
                          | None => None end
  | SaPrefixMap, PDict d => match as_sdict_pv d with
                            | Some m => Some {| delim := delim c; recs := recs c; pmap := m; synmap := synmap c; rpmap := rpmap c; ctrie := ctrie c; patmap := patmap c |}
                            | None => None end
  | SaSynonymToPrefix, PDict d => match as_sdict_pv d with
                                  | Some m => Some {| delim := delim c; recs := recs c; pmap := pmap c; synmap := m; rpmap := rpmap c; ctrie := ctrie c; patmap := patmap c |}
                                  | None => None end
  | SaReversePrefixMap, PDict d => match as_sdict_pv d with
                                   | Some m => Some {| delim := delim c; recs := recs c; pmap := pmap c; synmap := synmap c; rpmap := m; ctrie := ctrie c; patmap := patmap c |}
                                   | None => None end
  | SaPatternMap, PDict d => match as_sdict_pv d with
                             | Some m => Some {| delim := delim c; recs := recs c; pmap := pmap c; synmap := synmap c; rpmap := rpmap c; ctrie := ctrie c; patmap := m |}
                             | None => None end
  | SaTrie, PTrie t => Some {| delim := delim c; recs := recs c; pmap := pmap c; synmap := synmap c; rpmap := rpmap c; ctrie := t; patmap := patmap c |}
  | _, _ => None
  end.

Section ExecM.
Variable callm : conv -> nat -> list pv -> eres.

Fixpoint execm (s : pstmt) (env : list pv) (c : conv) {struct s} : outm :=
  match s with
  | SAssign x e => match eval c (callm c) env e with EV v => MNorm (upd x v env) c | EX x' => MRaise x' | ES => MStuck end
  | SIf cnd t e =>
      match eval c (callm c) env cnd with
      | EV v => if truthy v then execm_block t env c else execm_block e env c
      | EX x' => MRaise x'
      | ES => MStuck end
  | SReturn e => match eval c (callm c) env e with EV v => MRet v c | EX x' => MRaise x' | ES => MStuck end
  | SRaise e => MRaise e
  | SFor x it body =>
      match eval c (callm c) env it with
      | EV (PList l) | EV (PTup l) => for_loopm (fun v env c => execm_block body (upd x v env) c) l env c
      | EV _ => MRaise ETypeError
      | EX x' => MRaise x'
      | ES => MStuck end
  | SSelfSet d k v =>
      match eval c (callm c) env v with
      | EV (PStr vs) => match eval c (callm c) env k with
                        | EV (PStr ks) => MNorm env (set_sdict c d ks vs)
                        | EV _ => MStuck
                        | EX x' => MRaise x'
                        | ES => MStuck end
      | EV _ => MStuck
      | EX x' => MRaise x'
      | ES => MStuck end
  | STrieSet k v =>
      match eval c (callm c) env v with
      | EV (PStr vs) => match eval c (callm c) env k with
                        | EV (PStr ks) => MNorm env (set_trie c ks vs)
                        | EV _ => MStuck
                        | EX x' => MRaise x'
                        | ES => MStuck end
      | EV _ => MStuck
      | EX x' => MRaise x'
      | ES => MStuck end
  | SSelfAttr a e =>
      match eval c (callm c) env e with
      | EV v => match set_attr c a v with Some c' => MNorm env c' | None => MStuck end
      | EX x' => MRaise x'
      | ES => MStuck end
  | SPass => MNorm env c
  | SUnpack _ _ | SReraise | STry _ _ _ _ | SAppend _ _ | SSetItem _ _ _ | SRecAppend _ _ _ | SRecSort _ _ | SRecSet _ _ _ | SForUnpack _ _ _ => MStuck
  end
with execm_block (b : pblock) (env : list pv) (c : conv) {struct b} : outm :=
  match b with
  | BNil => MNorm env c
  | BCons s r => match execm s env c with MNorm env' c' => execm_block r env' c' | o => o end
  end.

(* the converter after the call; None = an exception or outside the fragment *)
Definition runm_fn (f : fn) (args : list pv) (c : conv) : option conv :=
  if Nat.eqb (length args) (fn_nparams f) then
    match execm_block (fn_body f) (args ++ repeat PNone (fn_nlocals f)) c with
    | MNorm _ c' | MRet _ c' => Some c'
    | _ => None end
  else None.
End ExecM.

(* the method table; fuel bounds the depth of nested calls (the call graph of the translated methods is acyclic and shallow) *)
Fixpoint run (fuel : nat) (tbl : list fn) (c : conv) (f : nat) (args : list pv) : eres :=
  match fuel with
  | O => ES
  | S k => match nth_error tbl f with Some fd => run_fn c (run k tbl c) fd args | None => ES end
  end.

(* ---- how the model's results read as Python values ---- *)
Definition pref (r : ref) : pv := PTup [PStr (fst r); PStr (snd r)].
Definition inj {A} (f : A -> pv) (r : res (option A)) : eres :=
  match r with Val (Some a) => EV (f a) | Val None => EV PNone | Raise e => EX e end.
Definition inj_str := inj PStr.
Definition inj_ref := inj pref.
Definition inj_strs := inj pstrs.
Definition inj_bool (b : bool) : eres := EV (PBool b).

(* functions that are not in the table: what the SPARQL graph of the mapping service holds besides its converter *)
Definition f_oracle_query_predicates : nat := 1000.     (* self.query_predicates, as a list *)
Definition f_oracle_is_valid_uri : nat := 1001.         (* rdflib's _is_valid_uri *)

Definition f_oracle_dup_uri_prefixes : nat := 1003.     (* _get_duplicate_uri_prefixes: read for its truthiness *)
Definition f_oracle_dup_prefixes : nat := 1004.         (* _get_duplicate_prefixes *)
Definition f_oracle_pattern_map : nat := 1005.          (* _get_pattern_map (a dict comprehension) *)
Definition f_oracle_strip : nat := 1002.                (* str.strip() without arguments *)
(* <compiled pattern>.<method>(s), read for its truthiness: pattern 0 = NCNAME_RE, 1 = LOCAL_UNIQUE_IDENTIFIER_RE; method 0 = fullmatch, 1 = match *)
Definition f_oracle_re (pat m : nat) : nat := 1010 + 2 * pat + m.

(* a table run in which some function ids are answered by an oracle (what the translated code calls but is not itself translated:
   regular-expression matching, str.strip, rdflib helpers) *)
Fixpoint run_with (oracle : nat -> list pv -> option eres) (fuel : nat) (tbl : list fn) (c : conv) (f : nat) (args : list pv) : eres :=
  match oracle f args with
  | Some r => r
  | None => match fuel with
            | O => ES
            | S k => match nth_error tbl f with Some fd => run_fn c (run_with oracle k tbl c) fd args | None => ES end
            end
  end.
Arguments run_with : simpl never.

(* the table entry of a function the translator could not translate: stuck on every call *)
Definition untranslated : fn := {| fn_nparams := 0; fn_nlocals := 0; fn_body := BCons SReraise BNil |}.
Arguments run : simpl never.
Arguments for_loop : simpl never.
Arguments for_loopm : simpl never.
Arguments filter_by : simpl never.
(* a state-changing function of the table, run on a converter *)
Definition runm (fuel : nat) (tbl : list fn) (c : conv) (f : nat) (args : list pv) : option conv :=
  match nth_error tbl f with Some fd => runm_fn (fun c' => run fuel tbl c') fd args c | None => None end.

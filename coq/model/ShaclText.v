(* The full TEXT of one SHACL prefix declaration as curies writes it (curies.api._get_shacl_line) and a reader for
   that line shape which follows rdflib's Turtle parser (rdflib.plugins.parsers.notation3: skipSpace, qname,
   nodeOrLiteral, strconst with a one-character delimiter).  Definitions only; the proofs are in
   proofs/ShaclTextFacts.v.  escape_bs (str.replace of one backslash by two) and turtle_unescape (strconst's
   unescaping of a short-string body) come from Writers.v.
   In the comments of this file Q stands for the double quote character (code point 34) and B for the backslash. *)
From Curies.model Require Export Writers.

Definition dquote : chr := 34%N.                                  (* Q *)

(* ---- the writer ----
     prefix = prefix.replace(B, BB); uri_prefix = uri_prefix.replace(B, BB)
     line = f'    [ sh:prefix Q{prefix}Q ; sh:namespace Q{uri_prefix}Q^^xsd:anyURI '
     if pattern: line += f'; sh:pattern Q{pattern.replace(B, BB)}Q'
     return line + ' ]' *)
(* '    [ sh:prefix Q' *)
Definition t_open : str := [32;32;32;32;91;32;115;104;58;112;114;101;102;105;120;32;34]%N.
(* ' ; sh:namespace Q'      (what follows the closing quote of the prefix) *)
Definition t_mid : str := [32;59;32;115;104;58;110;97;109;101;115;112;97;99;101;32;34]%N.
(* '^^xsd:anyURI '          (what follows the closing quote of the namespace) *)
Definition t_dt : str := [94;94;120;115;100;58;97;110;121;85;82;73;32]%N.
(* '; sh:pattern Q' *)
Definition t_pat : str := [59;32;115;104;58;112;97;116;116;101;114;110;32;34]%N.
(* ' ]' *)
Definition t_close : str := [32;93]%N.

(* the line, parametrised by what is done to a field before it is put between the quotes *)
Definition shacl_line_with (esc : str -> str) (p u : str) (pat : option str) : str :=
  t_open ++ esc p ++ dquote :: t_mid ++ esc u ++ dquote :: t_dt
  ++ (match pat with
      | Some (c :: x) => t_pat ++ esc (c :: x) ++ [dquote]        (* `if pattern:` -- None and the empty string write nothing *)
      | _ => []
      end)
  ++ t_close.
(* _get_shacl_line *)
Definition shacl_line (p u : str) (pat : option str) : str := shacl_line_with escape_bs p u pat.
(* the same line without the backslash doubling (what the function would write without its .replace calls) *)
Definition shacl_line_raw (p u : str) (pat : option str) : str := shacl_line_with (fun s => s) p u pat.

(* ---- the reader ---- *)
(* rdflib's skipSpace: blanks, tabs, LF and CR LF (a CR alone is not white space); comments are not modelled *)
Definition is_blank (c : chr) : bool := N.eqb c 32 || N.eqb c 9 || N.eqb c 10.
Fixpoint skip_blanks (s : str) : str :=
  match s with
  | [] => []
  | c :: t =>
      if is_blank c then skip_blanks t
      else if N.eqb c 13 then match t with d :: t' => if N.eqb d 10 then skip_blanks t' else s | [] => s end
      else s
  end.

(* the text must start with the token; what follows it *)
Definition expect (tok s : str) : option str := if prefixb tok s then Some (skipn (length tok) s) else None.
Definition expect_tok (tok s : str) : option str := expect tok (skip_blanks s).

(* s is the text after an opening Q.  The closing quote is the first Q that is not escaped, i.e. not preceded by
   an odd number of backslashes: a backslash always takes the next character with it.  (raw body, text after the
   closing quote); None when the literal is not terminated *)
Fixpoint scan_quote (s : str) : option (str * str) :=
  match s with
  | [] => None
  | c :: t =>
      if N.eqb c dquote then Some ([], t)
      else if N.eqb c backslash then
        match t with
        | e :: t' => match scan_quote t' with Some (b, r) => Some (c :: e :: b, r) | None => None end
        | [] => None
        end
      else match scan_quote t with Some (b, r) => Some (c :: b, r) | None => None end
  end.
(* a Turtle short string literal Q...Q at the very start of s: (its value, the text after it) *)
Definition string_lit (s : str) : option (str * str) :=
  match s with
  | c :: t =>
      if N.eqb c dquote then
        match scan_quote t with
        | Some (b, r) => match turtle_unescape b with Some v => Some (v, r) | None => None end
        | None => None
        end
      else None
  | [] => None
  end.

Definition tok_lbr : str := [91]%N.                                                         (* '[' *)
Definition tok_rbr : str := [93]%N.                                                         (* ']' *)
Definition tok_semi : str := [59]%N.                                                        (* ';' *)
Definition tok_prefix : str := [115;104;58;112;114;101;102;105;120]%N.                      (* 'sh:prefix' *)
Definition tok_ns : str := [115;104;58;110;97;109;101;115;112;97;99;101]%N.                 (* 'sh:namespace' *)
Definition tok_pattern : str := [115;104;58;112;97;116;116;101;114;110]%N.                  (* 'sh:pattern' *)
Definition tok_dt : str := [94;94;120;115;100;58;97;110;121;85;82;73]%N.                    (* '^^xsd:anyURI' *)

(* blanks, the predicate name, blanks, a string literal *)
Definition read_field (key s : str) : option (str * str) :=
  match expect_tok key s with Some s' => string_lit (skip_blanks s') | None => None end.
(* blanks, ']', blanks, end of the line *)
Definition read_close (s : str) : bool :=
  match expect_tok tok_rbr s with Some r => is_nil (skip_blanks r) | None => false end.

(* s is the text after the datatype of the namespace, blanks skipped: either ']' or ';' sh:pattern Q...Q ']' *)
Definition parse_tail (p u s : str) : option (str * str * option str) :=
  match expect tok_rbr s with
  | Some r => if is_nil (skip_blanks r) then Some (p, u, None) else None
  | None =>
      match expect tok_semi s with
      | Some s1 =>
          match read_field tok_pattern s1 with
          | Some (pat, s2) => if read_close s2 then Some (p, u, Some pat) else None
          | None => None
          end
      | None => None
      end
  end.

(*  [ sh:prefix Q...Q ; sh:namespace Q...Q^^xsd:anyURI ( ; sh:pattern Q...Q )? ]   -- None on any deviation *)
Definition shacl_parse_line (s : str) : option (str * str * option str) :=
  match expect_tok tok_lbr s with
  | Some s1 =>
      match read_field tok_prefix s1 with
      | Some (p, s2) =>
          match expect_tok tok_semi s2 with
          | Some s3 =>
              match read_field tok_ns s3 with
              | Some (u, s4) =>
                  match expect tok_dt s4 with                      (* no blank between the literal and ^^ *)
                  | Some s5 => parse_tail p u (skip_blanks s5)
                  | None => None
                  end
              | None => None
              end
          | None => None
          end
      | None => None
      end
  | None => None
  end.

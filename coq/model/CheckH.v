(* C10 driver entry: the object-level model (Heap.v) is executed on the case; the observation is, per step and per
   input, whether the input's records are what they were, and whether the result shares a cell with an input. *)
From Curies.model Require Export Heap CheckR Discovery.

Definition records_eqb (a b : list record) : bool := val_eqb (VList (map vrecord a)) (VList (map vrecord b)).

(* lay the inputs out on a heap: input i occupies a contiguous block of addresses *)
Fixpoint layout (ins : list (list record)) (base : nat) : list hconv :=
  match ins with
  | [] => []
  | rs :: rest => seq base (length rs) :: layout rest (base + length rs)
  end.

Definition as_follow (v : val) : option (record * bool * bool) :=
  match v with
  | VList [r; VInt a; VInt b; _] => match as_record r with Some r' => Some (r', negb (Z.eqb a 0), negb (Z.eqb b 0)) | None => None end
  | _ => None
  end.

Definition h_derive (fc : chr -> str) (k : rcase) (h0 : heap) (Cs : list hconv) (cs : list conv) : res (heap * hconv) :=
  match rc_op k, Cs, cs with
  | DChain sens, _, _ => h_chain fc h0 Cs sens
  | DSub P, C :: _, _ => Val (h_sub h0 C P)
  | DRemapCurie m, C :: _, c :: _ =>
      match order_curie_remapping c m with
      | Raise e => Raise e
      | Val ordering => Val (h_remap h0 C (fun _ => map snd (fold_left (step_cur c m (inter (map fst m) (map snd m))) ordering
                                                               (map (fun r => (r_prefix r, r)) (recs c)))))
      end
  | DRemapUri m, C :: _, c :: _ =>
      match remap_uri_records c m with Raise e => Raise e | Val _ => Val (h_remap h0 C (fun v => map (fun r => match first_hit (all_uris r) m with Some n => repoint c r n false | None => r end) v)) end
  | DRewire m, C :: _, c :: _ => Val (h_remap h0 C (fun v => map (fun r => match first_hit (all_prefixes r) m with Some n => repoint c r n true | None => r end) v))
  | _, _, _ => Raise EOther
  end.

(* the observation of the model: [code; per step (the derivation, then every follow-up) one flag per input: records unchanged?;
   does the result hold a cell of an input?] *)
Definition model_hobs (k : rcase) (cs : list conv) (fol : list (record * bool * bool)) (is_discover : bool) : val :=
  let fc := fold_of (rc_fold k) in
  (* the records of each input in the order its converter holds them *)
  let ins' := map recs cs in
  let h0 := concat ins' in
  let Cs := layout ins' 0 in
  let flags := fun h => VList (map (fun C => vbool (records_eqb (view h C) (view h0 C))) Cs) in
  if is_discover then
    (* discover only reads its converter and creates new records: every follow-up works on fresh cells *)
    let res := fold_left (fun acc op => let hr := follow_step fc (fst acc) op in (hr, snd acc ++ [flags (fst hr)]))
                         fol ((h0, []), [flags h0]) in
    VList [VInt 0; VList (snd res); VInt 0]
  else
    match h_derive fc k h0 Cs cs with
    | Raise e => VList [VInt (derive_code (@Raise conv e)); VList [flags h0]; VInt 0]
    | Val (h1, R) =>
        match mk_conv true [58%N] (view h1 R) with
        | Raise e => VList [VInt (derive_code (@Raise conv e)); VList [flags h1]; VInt 0]
        | Val _ =>
            let res := fold_left (fun acc op => let hr := follow_step fc (fst acc) op in (hr, snd acc ++ [flags (fst hr)]))
                                 fol ((h1, R), [flags h1]) in
            VList [VInt 0; VList (snd res); vbool (existsb (fun a => Nat.ltb a (length h0)) R)]
        end
    end.

(* C10 on one history: no input changed at any step.  (Whether the result shares a Record object with an input is observed too,
   but it is part of "implementation = model" -- the mechanism --, not of the property: sharing that never shows is no violation.) *)
Definition P_C10 (o : val) : bool :=
  match o with
  | VList [VInt c; VList st; VInt sh] =>
      forallb (fun s => match s with VList fl => forallb (val_eqb (VInt 1)) fl | _ => false end) st
  | _ => false end.

Definition run_heap (case obs : val) : val :=
  match case with
  | VList [VList (ins :: op :: ss :: ps :: ft :: _); VInt nsteps; VInt is_discover; VList [follow; _]] =>
      match decode_rcase (VList [ins; op; ss; ps; ft]), as_list_of as_follow follow with
      | Some k, Some fol =>
          match input_convs k with
          | Raise _ => VList [VInt (-3)]
          | Val cs =>
              let m := model_hobs k cs fol (negb (Z.eqb is_discover 0)) in
              let same := val_eqb m obs in
              VList [vbool same; vbool (valid_r k || negb (Z.eqb is_discover 0)); vbool (P_C10 m); vbool (P_C10 obs); if same then VList [] else m]
          end
      | _, _ => VList [VInt (-1)]
      end
  | _ => VList [VInt (-1)]
  end.

(* Object-level model for C10: Record objects are heap cells (address = index); a converter's `records` list is a list
   of addresses.  The index dictionaries of a converter are always created afresh by Converter.__init__ and hold
   immutable strings, so only the Record objects can be shared between converters.  Each derivation is modelled by
   what it allocates and what it writes; the VALUES written are those of the value-level functions (Mutate / Reconcile).
   No proofs here. *)
From Curies.model Require Export Mutate Reconcile.

Definition heap := list record.
Definition dummy_record : record := {| r_prefix := []; r_uri := []; r_psyn := []; r_usyn := []; r_pat := None |}.
Definition deref (h : heap) (a : nat) : record := nth a h dummy_record.
Fixpoint hwrite (h : heap) (a : nat) (r : record) : heap :=
  match h, a with
  | [], _ => []
  | _ :: t, O => r :: t
  | x :: t, S a' => x :: hwrite t a' r
  end.
Definition halloc (h : heap) (r : record) : heap * nat := (h ++ [r], length h).
Definition hconv := list nat.
Definition view (h : heap) (C : hconv) : list record := map (deref h) C.

(* record.model_copy(deep=True) for every record of C *)
Definition copy_records (h : heap) (C : hconv) : heap * hconv :=
  fold_left (fun hc a => let '(h', a') := halloc (fst hc) (deref (fst hc) a) in (h', snd hc ++ [a'])) C (h, []).

Section H.
Variable fold_c : chr -> str.

(* Converter.add_record(record_object_at_a): no match -> the OBJECT a is appended; one match with merge -> the matched
   object is mutated in place; otherwise ValueError and nothing happens *)
Definition h_add_record (h : heap) (R : hconv) (a : nat) (cs mg : bool) : res (heap * hconv) :=
  let r := deref h a in
  match filter (fun e => matches_record fold_c cs r (deref h e)) R with
  | [] => Val (h, R ++ [a])
  | [e] => if mg then Val (hwrite h e (merge r (deref h e)), R) else Raise EValueError
  | _ => Raise EValueError
  end.

(* chain (after repair D3): every record is copied before it is added *)
Definition h_chain (h : heap) (Cs : list hconv) (sens : bool) : res (heap * hconv) :=
  match Cs with
  | [] => Raise EValueError
  | _ => fold_left (fun acc a => bind acc (fun hr =>
             let '(h1, a') := halloc (fst hr) (deref (fst hr) a) in h_add_record h1 (snd hr) a' sens true))
           (concat Cs) (Val (h, []))
  end.
(* chain before the repair: the input's own Record objects are added (and later mutated by merges) *)
Definition h_chain_shared (h : heap) (Cs : list hconv) (sens : bool) : res (heap * hconv) :=
  match Cs with
  | [] => Raise EValueError
  | _ => fold_left (fun acc a => bind acc (fun hr => h_add_record (fst hr) (snd hr) a sens true)) (concat Cs) (Val (h, []))
  end.

(* get_subconverter: copies of the kept records *)
Definition h_sub (h : heap) (C : hconv) (P : list str) : heap * hconv :=
  copy_records h (filter (fun a => existsb (fun p => mem p P) (all_prefixes (deref h a))) C).

(* remap_curie_prefixes / remap_uri_prefixes / rewire: the converter is copied first, then the COPIES are mutated in
   place; [newvals] are the records the value-level function computes, cell by cell *)
Definition h_overwrite (h : heap) (C' : hconv) (newvals : list record) : heap :=
  fold_left (fun h av => hwrite h (fst av) (snd av)) (combine C' newvals) h.
Definition h_remap (h : heap) (C : hconv) (f : list record -> list record) : heap * hconv :=
  let '(h1, C') := copy_records h C in (h_overwrite h1 C' (f (view h1 C')), C').
(* later modification of a derived converter: add_record with a freshly created Record object
   (a rejected call leaves only the unused new object behind) *)
Definition follow_step (hr : heap * hconv) (op : record * bool * bool) : heap * hconv :=
  let '(r, cs, mg) := op in
  let '(h1, a) := halloc (fst hr) r in
  match h_add_record h1 (snd hr) a cs mg with Val hr' => hr' | Raise _ => (h1, snd hr) end.
End H.

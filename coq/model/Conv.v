(* Record, Converter.__init__, the five indexes.  No proofs here. *)
From Curies.model Require Export Str PyData Trie.

(* exceptions as values *)
Inductive err :=
| ENoCURIEDelimiter | EExpansion | ECompression | EPrefixStd | EIdentifierStd | ECURIEStd | EURIStd
| EDuplicateURIPrefixes | EDuplicatePrefixes | EValueError | ERecordValidation
| EDuplicateKeys | EDuplicateValues | EInconsistentMapping | ECycleDetected | ETransitive
| EKeyError | EIndexError | ETypeError | EOther.
Inductive res (A : Type) := Val (a : A) | Raise (e : err).
Arguments Val {A}. Arguments Raise {A}.
Definition bind {A B} (x : res A) (f : A -> res B) : res B := match x with Val a => f a | Raise e => Raise e end.

Record record := { r_prefix : str; r_uri : str; r_psyn : list str; r_usyn : list str; r_pat : option str }.
Definition all_prefixes r := r_prefix r :: r_psyn r.
Definition all_uris r := r_uri r :: r_usyn r.

(* the two pydantic field validators of Record *)
Definition mk_record (p u : str) (ps us : list str) (pat : option str) : res record :=
  if mem p ps then Raise ERecordValidation
  else if mem u us then Raise ERecordValidation
  else Val {| r_prefix := p; r_uri := u; r_psyn := ps; r_usyn := us; r_pat := pat |}.

(* _get_duplicate_uri_prefixes / _get_duplicate_prefixes: (position-independent) summaries *)
Definition dups (keysf : record -> list str) (rs : list record) : list (record * record * str) :=
  flat_map (fun '(r1, r2) =>
     flat_map (fun '(a, b) => if str_eqb a b then [(r1, r2, a)] else []) (product (keysf r1) (keysf r2)))
   (combinations2 rs).

(* _get_prefix_map, _get_prefix_synmap, _get_reverse_prefix_map share this loop *)
Definition idx_rec (keysf : record -> list str) (valf : record -> str) (d : dict str) (r : record) : dict str :=
  fold_left (fun d k => dset k (valf r) d) (keysf r) d.
Definition idx_of keysf valf (rs : list record) : dict str := fold_left (idx_rec keysf valf) rs [].

Definition nonempty_pat (r : record) : option str :=
  match r_pat r with Some (c :: p) => Some (c :: p) | _ => None end.
(* {record.prefix: record.pattern for record in records if record.pattern} *)
Definition patmap_of (rs : list record) : dict str :=
  fold_left (fun d r => match nonempty_pat r with Some p => dset (r_prefix r) p d | None => d end) rs [].

Definition trie_of (d : dict str) : trie str := fold_left (fun t kv => insert (fst kv) (snd kv) t) d empty.

Record conv := { delim : str; recs : list record; pmap : dict str; synmap : dict str;
                 rpmap : dict str; ctrie : trie str; patmap : dict str }.

Definition sort_records : list record -> list record := sort_by_key r_prefix.

Definition mk_conv (strict : bool) (d : str) (rs0 : list record) : res conv :=
  let rs := sort_records rs0 in
  if strict && negb (match dups all_uris rs with [] => true | _ => false end) then Raise EDuplicateURIPrefixes
  else if strict && negb (match dups all_prefixes rs with [] => true | _ => false end) then Raise EDuplicatePrefixes
  else
    let rp := idx_of all_uris r_prefix rs in
    Val {| delim := d; recs := rs;
           pmap := idx_of all_prefixes r_uri rs;
           synmap := idx_of all_prefixes r_prefix rs;
           rpmap := rp; ctrie := trie_of rp; patmap := patmap_of rs |}.

Definition bimap (c : conv) : dict str := dict_of (map (fun r => (r_prefix r, r_uri r)) (recs c)).
Definition reverse_bimap (c : conv) : dict str := dict_of (map (fun r => (r_uri r, r_prefix r)) (recs c)).
(* sets, reported sorted *)
Definition get_prefixes (syn : bool) (c : conv) : list str :=
  sort_uniq (map r_prefix (recs c) ++ if syn then flat_map r_psyn (recs c) else []).
Definition get_uri_prefixes (syn : bool) (c : conv) : list str :=
  sort_uniq (map r_uri (recs c) ++ if syn then flat_map r_usyn (recs c) else []).

(* C04 / C13: construction through the constructor and through every loader. *)
From Curies.model Require Export Loaders Spec CheckQ.

Inductive linput :=
| LRecords (rs : list record)                    (* Converter(records) *)
| LEpm (rs : list record)                        (* from_extended_prefix_map(dicts) *)
| LPrefixMap (pm : list (str * str))
| LPriority (pm : list (str * list str))
| LReverse (rpm : list (str * str))
| LJsonld (ctx : list (str * term))
| LUpgrade (pm : list (str * str)).              (* Converter(upgrade_prefix_map(pm)) *)

Record lcase := { lc_in : linput; lc_delim : str; lc_strs : list str; lc_pairs : list (str * str) }.

Definition as_pair_strs (v : val) : option (str * list str) :=
  match v with VList [VStr a; b] => match as_strs b with Some l => Some (a, l) | None => None end | _ => None end.
Definition as_term_entry (v : val) : option (str * term) :=
  match v with
  | VList [VStr k; VList [VInt 0; VStr s]] => Some (k, TStr s)
  | VList [VStr k; VList [VInt 1; VStr s]] => Some (k, TPrefix s)
  | VList [VStr k; VList [VInt 2]] => Some (k, TOther)
  | _ => None
  end.
Definition decode_linput (v : val) : option linput :=
  match v with
  | VList [VInt 0; x] => option_map LRecords (as_records x)
  | VList [VInt 1; x] => option_map LEpm (as_records x)
  | VList [VInt 2; x] => option_map LPrefixMap (as_list_of as_pair_str x)
  | VList [VInt 3; x] => option_map LPriority (as_list_of as_pair_strs x)
  | VList [VInt 4; x] => option_map LReverse (as_list_of as_pair_str x)
  | VList [VInt 5; x] => option_map LJsonld (as_list_of as_term_entry x)
  | VList [VInt 6; x] => option_map LUpgrade (as_list_of as_pair_str x)
  (* tag 7: Record objects that have already been through another converter (cached, then extended by a merge): the
     constructor must judge them by their current contents, i.e. exactly as Converter(records) *)
  | VList [VInt 7; x] => option_map LRecords (as_records x)
  (* tag 8: from_rdflib(graph) / from_rdflib(graph.namespace_manager): the prefix map is what graph.namespaces() lists (read by the
     harness before the call) *)
  | VList [VInt 8; x] => option_map LPrefixMap (as_list_of as_pair_str x)
  | _ => None
  end.
Definition decode_lcase (v : val) : option lcase :=
  match v with
  | VList [i; VStr d; ss; ps] =>
      match decode_linput i, as_strs ss, as_list_of as_pair_str ps with
      | Some i', Some ss', Some ps' => Some {| lc_in := i'; lc_delim := d; lc_strs := ss'; lc_pairs := ps' |}
      | _, _, _ => None
      end
  | _ => None
  end.

Definition records_of (i : linput) : res (list record) :=
  match i with
  | LRecords rs => Val rs
  | LEpm rs => records_of_epm rs
  | LPrefixMap pm => records_of_prefix_map pm
  | LPriority pm => records_of_priority_map pm
  | LReverse rpm => records_of_reverse_map rpm
  | LJsonld ctx => records_of_jsonld ctx
  | LUpgrade pm => upgrade_prefix_map pm
  end.

(* outcome: 0 ok, 1 DuplicateURIPrefixes, 2 DuplicatePrefixes, 4 record validation error, 3 anything else *)
Definition load_code (r : res conv) : Z :=
  match r with Val _ => 0 | Raise EDuplicateURIPrefixes => 1 | Raise EDuplicatePrefixes => 2
             | Raise ERecordValidation => 4 | Raise _ => 3 end%Z.

(* the clash listing of the exception: (record_1.prefix, record_2.prefix, clashing string), sorted *)
Definition vtriple (t : record * record * str) : val :=
  let '(r1, r2, s) := t in VList [VStr (r_prefix r1); VStr (r_prefix r2); VStr s].
Definition triple_key (t : record * record * str) : str :=
  let '(r1, r2, s) := t in r_prefix r1 ++ [0%N] ++ r_prefix r2 ++ [0%N] ++ s.
Definition listing (keysf : record -> list str) (rs : list record) : val :=
  VList (map vtriple (sort_by_key triple_key (dups keysf (sort_records rs)))).

Definition lbattery (k : lcase) : list query := battery (lc_strs k) (lc_pairs k).

Definition model_lobs (k : lcase) : val :=
  match records_of (lc_in k) with
  | Raise e => VList [VInt (load_code (@Raise conv e)); VList []; VList []]
  | Val rs =>
      match mk_conv true (lc_delim k) rs with
      | Val c => VList [VInt 0; VList []; VList (map (answer c) (lbattery k))]
      | Raise EDuplicateURIPrefixes => VList [VInt 1; listing all_uris rs; VList []]
      | Raise EDuplicatePrefixes => VList [VInt 2; listing all_prefixes rs; VList []]
      | Raise e => VList [VInt 3; VList []; VList []]
      end
  end.

(* ---- C04: specification of the outcome, independent of sorting and of the comprehension ---- *)
Definition self_dup (r : record) : bool := mem (r_prefix r) (r_psyn r) || mem (r_uri r) (r_usyn r).
Definition expected_code (rs : list record) : Z :=
  if clash all_uris rs then 1 else if clash all_prefixes rs then 2 else 0.

Definition P_C04 (k : lcase) (o : val) : bool :=
  match records_of (lc_in k), o with
  | Raise ERecordValidation, VList (VInt 4 :: _) => true
  | Raise _, _ => false
  | Val rs, VList [VInt code; lst; VList answers] =>
      Z.eqb code (expected_code rs) &&
      (if Z.eqb code 1 then val_eqb lst (listing all_uris rs) && negb (val_eqb lst (VList []))
       else if Z.eqb code 2 then val_eqb lst (listing all_prefixes rs) && negb (val_eqb lst (VList []))
       else (* every prefix / URI prefix resolves to exactly one record; bimap and reverse_bimap mutually inverse *)
         let z := combine (lbattery k) answers in
         Nat.eqb (length answers) (length (lbattery k)) &&
         match find_obs (fun q => match q with QBimap => true | _ => false end) z,
               find_obs (fun q => match q with QReverseBimap => true | _ => false end) z with
         | Some (VList [VInt 0; VList b]), Some (VList [VInt 0; VList rb]) =>
             Nat.eqb (length b) (length rs) && Nat.eqb (length rb) (length rs) &&
             forallb (fun pu => match pu with
                                | VList [p; u] => existsb (val_eqb (VList [u; p])) rb
                                | _ => false end) b
         | _, _ => false
         end
         && forallb (fun qv => match fst qv with
                               | QGetRecord _ | QStdPrefix _ _ _ | QExpandPair _ _ _ _ =>
                                   val_eqb (snd qv) (spec_answer rs (lc_delim k) (fst qv))
                               | _ => true end) z)
  | _, _ => false
  end.

(* ---- C13: the loaded converter denotes its input ---- *)
Definition obs_records_l (k : lcase) (answers : list val) : option (list record) :=
  match find_obs (fun q => match q with QRecords => true | _ => false end) (combine (lbattery k) answers) with
  | Some (VList [VInt 0; rs]) => as_records rs
  | _ => None
  end.
Definition set_eqb (a b : list str) : bool := forallb (fun x => mem x b) a && forallb (fun x => mem x a) b.
Definition rec_for (rs : list record) (p : str) : option record := List.find (fun r => str_eqb (r_prefix r) p) rs.
Definition min_len (l : list str) : nat := fold_right (fun s m => Nat.min (length s) m) (match l with [] => 0 | s :: _ => length s end) l.

Definition denotes (i : linput) (rs : list record) : bool :=
  match i with
  | LRecords rs0 | LEpm rs0 =>
      Nat.eqb (length rs) (length rs0) &&
      forallb (fun r0 => match rec_for rs (r_prefix r0) with
                         | Some r => str_eqb (r_uri r) (r_uri r0) && set_eqb (r_psyn r) (r_psyn r0) && set_eqb (r_usyn r) (r_usyn r0)
                                     && val_eqb (vopt VStr (r_pat r)) (vopt VStr (r_pat r0))
                         | None => false end) rs0
  | LPrefixMap pm =>
      Nat.eqb (length rs) (length pm) &&
      forallb (fun pu => match rec_for rs (fst pu) with
                         | Some r => str_eqb (r_uri r) (snd pu) && is_nil (r_psyn r) && is_nil (r_usyn r)
                         | None => false end) pm
  | LPriority pm =>
      Nat.eqb (length rs) (length pm) &&
      forallb (fun pu => match rec_for rs (fst pu), snd pu with
                         | Some r, u :: us => str_eqb (r_uri r) u && set_eqb (r_usyn r) us && is_nil (r_psyn r)
                         | _, _ => false end) pm
  | LReverse rpm =>
      forallb (fun up => match rec_for rs (snd up) with
                         | Some r => mem (fst up) (all_uris r) && Nat.eqb (length (r_uri r)) (min_len (all_uris r)) && is_nil (r_psyn r)
                         | None => false end) rpm
      && forallb (fun r => forallb (fun u => existsb (fun up => str_eqb (fst up) u && str_eqb (snd up) (r_prefix r)) rpm) (all_uris r)) rs
  | LJsonld ctx =>
      let keep kt := match fst kt with [] => false | 64%N :: _ => false | _ => match snd kt with TOther => false | _ => true end end in
      forallb (fun kt => match rec_for rs (fst kt), snd kt with
                         | Some r, TStr s => str_eqb (r_uri r) s
                         | Some r, TPrefix s => str_eqb (r_uri r) s
                         | _, _ => false end) (filter keep ctx)
      && forallb (fun r => existsb (fun kt => keep kt && str_eqb (fst kt) (r_prefix r)) ctx && is_nil (r_psyn r) && is_nil (r_usyn r)) rs
  | LUpgrade pm =>
      forallb (fun pu => match List.find (fun r => str_eqb (r_uri r) (snd pu)) rs with
                         | Some r => mem (fst pu) (all_prefixes r) && forallb (fun q => str_leb (r_prefix r) q) (all_prefixes r) && is_nil (r_usyn r)
                         | None => false end) pm
      && forallb (fun r => forallb (fun p => existsb (fun pu => str_eqb (fst pu) p && str_eqb (snd pu) (r_uri r)) pm) (all_prefixes r)) rs
  end.

Definition all_conv_queries_l (q : query) : bool :=
  match q with QBimap | QReverseBimap | QGetPrefixes _ | QGetUriPrefixes _ | QRecords
             | QPrefixMap | QReversePrefixMap | QSynonymToPrefix | QPatternMap => false | _ => true end.

(* inputs the loaders accept by construction (the quantifier of C13): a strict result *)
Definition P_C13 (k : lcase) (o : val) : bool :=
  match o with
  | VList [VInt 0; _; VList answers] =>
      Nat.eqb (length answers) (length (lbattery k)) &&
      match obs_records_l k answers with
      | Some rs =>
          denotes (lc_in k) rs && strictb rs &&
          forallb (fun qv => if all_conv_queries_l (fst qv) then val_eqb (snd qv) (spec_answer rs (lc_delim k) (fst qv)) else true)
                  (combine (lbattery k) answers)
      | None => false
      end
  | VList (VInt c :: _) =>
      (* a rejected input: fine for C13 as long as the rejection is the one C04 predicts; upgrade_prefix_map never rejects *)
      match lc_in k with LUpgrade _ => false | _ => P_C04 k o end
  | _ => false
  end.

Definition dict_keys_unique {V} (d : list (str * V)) : bool := nodup_str (map fst d).
Definition valid_l (k : lcase) : bool :=
  negb (is_nil (lc_delim k)) &&
  match lc_in k with
  | LRecords rs => forallb (fun r => negb (self_dup r)) rs
  | LEpm _ => true
  | LPrefixMap pm => dict_keys_unique pm
  | LPriority pm => dict_keys_unique pm && forallb (fun pu => negb (is_nil (snd pu))) pm
  | LReverse rpm => dict_keys_unique rpm
  | LJsonld ctx => dict_keys_unique ctx
  | LUpgrade pm => dict_keys_unique pm
  end.

Definition run_load (prop : Z) (case obs : val) : val :=
  match decode_lcase case with
  | None => VList [VInt (-1)]
  | Some k =>
      let m := model_lobs k in
      let same := val_eqb m obs in
      let P := if (prop =? 4)%Z then P_C04 k else P_C13 k in
      VList [vbool same; vbool (valid_l k); vbool (P m); vbool (P obs); if same then VList [] else m]
  end.

(* Converter query methods, with their strict / passthrough / return_none flags.  No proofs here. *)
From Curies.model Require Export Conv.

Definition ref := (str * str)%type.

(* _split *)
Definition split_curie (sep s : str) : res ref :=
  match partition sep s with Some pi => Val pi | None => Raise ENoCURIEDelimiter end.

Definition format_curie (c : conv) (p i : str) : str := p ++ delim c ++ i.

(* failure tail shared by the methods: if strict: raise e; if passthrough: return x; return None *)
Definition fail_mode {A} (strict passthrough : bool) (e : err) (x : A) : res (option A) :=
  if strict then Raise e else if passthrough then Val (Some x) else Val None.

Definition standardize_prefix (c : conv) (p : str) (strict passthrough : bool) : res (option str) :=
  match dget p (synmap c) with
  | Some rv => Val (Some rv)
  | None => fail_mode strict passthrough EPrefixStd p
  end.

(* trie.longest_prefix_item + slicing *)
Definition parse_uri_core (c : conv) (u : str) : option ref :=
  match lpi u (ctrie c) with Some (n, p) => Some (p, skipn n u) | None => None end.

(* parse_uri(uri, strict=, return_none=True) *)
Definition parse_uri (c : conv) (u : str) (strict : bool) : res (option ref) :=
  match parse_uri_core c u with
  | Some r => Val (Some r)
  | None => if strict then Raise ECompression else Val None
  end.

Definition compress (c : conv) (u : str) (strict passthrough : bool) : res (option str) :=
  match parse_uri_core c u with
  | Some (p, i) => Val (Some (format_curie c p i))
  | None => fail_mode strict passthrough ECompression u
  end.

Definition is_uri (c : conv) (s : str) : bool :=
  match compress c s false false with Val (Some _) => true | _ => false end.

(* standardize_identifier is the identity *)
Definition parse_curie (c : conv) (s : str) (strict : bool) : res (option ref) :=
  match partition (delim c) s with
  | None => if strict then Raise ENoCURIEDelimiter else Val None
  | Some (p, i) =>
      match dget p (synmap c) with
      | None => if strict then Raise EPrefixStd else Val None
      | Some np => Val (Some (np, i))
      end
  end.

Definition expand_reference (c : conv) (r : ref) (strict passthrough : bool) : res (option str) :=
  match dget (fst r) (pmap c) with
  | Some up => Val (Some (up ++ snd r))
  | None => fail_mode strict passthrough EExpansion (format_curie c (fst r) (snd r))
  end.
Definition expand_pair (c : conv) (p i : str) (strict passthrough : bool) := expand_reference c (p, i) strict passthrough.

Definition expand (c : conv) (s : str) (strict passthrough : bool) : res (option str) :=
  match parse_curie c s false with
  | Val (Some r) => expand_reference c r strict passthrough
  | Val None => fail_mode strict passthrough EExpansion s
  | Raise e => Raise e
  end.

Definition is_curie (c : conv) (s : str) : bool :=
  match expand c s false false with Val (Some _) => true | _ => false end.

Definition get_record (c : conv) (p : str) : option record :=
  List.find (fun r => str_eqb (r_prefix r) p || mem p (r_psyn r)) (recs c).

Definition expand_pair_all (c : conv) (p i : str) (strict : bool) : res (option (list str)) :=
  match get_record c p with
  | Some r => Val (Some (map (fun up => up ++ i) (all_uris r)))
  | None => if strict then Raise EExpansion else Val None
  end.

Definition expand_all (c : conv) (s : str) (strict : bool) : res (option (list str)) :=
  match parse_curie c s false with
  | Val (Some (p, i)) => expand_pair_all c p i false
  | Val None => if strict then Raise EPrefixStd else Val None
  | Raise e => Raise e
  end.

Definition parse (c : conv) (s : str) (strict : bool) : res (option ref) :=
  if is_uri c s then parse_uri c s strict
  else if is_curie c s then parse_curie c s strict
  else if strict then Raise ECompression else Val None.

Definition compress_or_standardize (c : conv) (s : str) (strict passthrough : bool) : res (option str) :=
  match parse c s false with
  | Val (Some (p, i)) => Val (Some (format_curie c p i))
  | Val None => fail_mode strict passthrough ECompression s
  | Raise e => Raise e
  end.

Definition expand_or_standardize (c : conv) (s : str) (strict passthrough : bool) : res (option str) :=
  match parse c s false with
  | Val (Some r) => expand_reference c r strict passthrough
  | Val None => fail_mode strict passthrough EExpansion s
  | Raise e => Raise e
  end.

Definition standardize_curie (c : conv) (s : str) (strict passthrough : bool) : res (option str) :=
  match parse_curie c s false with
  | Val (Some (p, i)) => Val (Some (format_curie c p i))
  | Val None => fail_mode strict passthrough ECURIEStd s
  | Raise e => Raise e
  end.

(* self.prefix_map[reference.prefix] : KeyError if absent *)
Definition standardize_uri (c : conv) (u : str) (strict passthrough : bool) : res (option str) :=
  match parse_uri_core c u with
  | Some (p, i) => match dget p (pmap c) with Some up => Val (Some (up ++ i)) | None => Raise EKeyError end
  | None => fail_mode strict passthrough EURIStd u
  end.

Definition compress_strict c u := compress c u true false.
Definition expand_strict c s := expand c s true false.

(* Executable property predicates for the query properties (C01-C03, C06-C08), evaluated on an
   observation vector (the implementation's or the model's).  No proofs here. *)
From Curies.model Require Export Spec.

Record qcase := { qc_recs : list record; qc_delim : str; qc_strs : list str; qc_pairs : list (str * str) }.

Definition as_pair_str (v : val) : option (str * str) :=
  match v with VList [VStr a; VStr b] => Some (a, b) | _ => None end.
(* an optional fifth element says HOW the harness built the converter from these records (0 constructor, 1 add_record one by
   one, 2 bare add_prefix followed by merges): by C05 the result is the same converter, so the model ignores it *)
Definition decode_qcase4 (rs d ss ps : val) : option qcase :=
  match d with
  | VStr d' =>
      match as_records rs, as_strs ss, as_list_of as_pair_str ps with
      | Some rs', Some ss', Some ps' => Some {| qc_recs := rs'; qc_delim := d'; qc_strs := ss'; qc_pairs := ps' |}
      | _, _, _ => None
      end
  | _ => None
  end.
Definition decode_qcase (v : val) : option qcase :=
  match v with
  | VList [rs; d; ss; ps] => decode_qcase4 rs d ss ps
  | VList [rs; d; ss; ps; VInt _] => decode_qcase4 rs d ss ps
  | _ => None
  end.

Definition qc_battery (k : qcase) : list query := battery (qc_strs k) (qc_pairs k).

Definition ctor_code (r : res conv) : Z :=
  match r with Val _ => 0 | Raise EDuplicateURIPrefixes => 1 | Raise EDuplicatePrefixes => 2 | Raise _ => 3 end%Z.

(* the model's observation: constructor outcome and, if it succeeded, the answers to the battery *)
Definition model_qobs (k : qcase) : val :=
  match mk_conv true (qc_delim k) (qc_recs k) with
  | Val c => VList [VInt 0; VList (map (answer c) (qc_battery k))]
  | Raise e => VList [VInt (ctor_code (@Raise conv e)); VList []]
  end.

Definition obs_answers (o : val) : option (list val) :=
  match o with VList [VInt 0; VList l] => Some l | _ => None end.

(* ---- validity of a case (the quantifier domains) ---- *)
Definition nodup_str (l : list str) : bool :=
  (fix go (l : list str) : bool := match l with [] => true | x :: l' => negb (mem x l') && go l' end) l.
(* no string is claimed twice (within one record or across records) *)
Definition strict_okb (rs : list record) : bool :=
  nodup_str (flat_map all_prefixes rs) && nodup_str (flat_map all_uris rs).
(* the exact acceptance condition of the strict constructor: no string claimed by two records at different positions *)
Fixpoint clash (keysf : record -> list str) (rs : list record) : bool :=
  match rs with
  | [] => false
  | r :: rest => existsb (fun r' => existsb (fun k => mem k (keysf r')) (keysf r)) rest || clash keysf rest
  end.
Definition strictb (rs : list record) : bool := negb (clash all_uris rs) && negb (clash all_prefixes rs).
Definition is_nil {A} (l : list A) : bool := match l with [] => true | _ => false end.
Definition valid_q (k : qcase) : bool := strict_okb (qc_recs k) && negb (is_nil (qc_delim k)).

(* first occurrence of the delimiter in p ++ d is at |p| : "the prefix does not contain the delimiter" *)
Definition delim_safe (d p : str) : bool :=
  match partition d (p ++ d) with Some (a, _) => Nat.eqb (length a) (length p) | None => false end.
Definition prefixes_delim_safe (rs : list record) (d : str) : bool :=
  forallb (fun r => delim_safe d (r_prefix r)) rs.
(* no registered URI prefix is a proper prefix of (or equal to) another registration *)
Definition prefix_freeb (rs : list record) : bool :=
  let us := flat_map all_uris rs in
  forallb (fun a => forallb (fun b => str_eqb a b || negb (prefixb a b)) us) us.

(* ---- lookups in a zipped observation ---- *)
Definition zobs := list (query * val).
Definition okv (v : val) : option val := match v with VList [VInt 0; x] => Some x | _ => None end.
Definition ok_ostr (v : val) : option (option str) :=
  match v with VList [VInt 0; VNone] => Some None | VList [VInt 0; VSome (VStr s)] => Some (Some s) | _ => None end.
Definition find_obs (f : query -> bool) (z : zobs) : option val :=
  match List.find (fun qv => f (fst qv)) z with Some qv => Some (snd qv) | None => None end.
Definition q_compress s := fun q => match q with QCompress s' false false => str_eqb s s' | _ => false end.
Definition q_expand s := fun q => match q with QExpand s' false false => str_eqb s s' | _ => false end.
Definition q_expand_all s := fun q => match q with QExpandAll s' false => str_eqb s s' | _ => false end.
Definition q_std_uri s := fun q => match q with QStdUri s' false false => str_eqb s s' | _ => false end.
Definition q_std_curie s := fun q => match q with QStdCurie s' false false => str_eqb s s' | _ => false end.
Definition q_std_prefix s := fun q => match q with QStdPrefix s' false false => str_eqb s s' | _ => false end.
Definition q_is_uri s := fun q => match q with QIsUri s' => str_eqb s s' | _ => false end.
Definition q_is_curie s := fun q => match q with QIsCurie s' => str_eqb s s' | _ => false end.
Definition q_parse_uri s := fun q => match q with QParseUri s' false => str_eqb s s' | _ => false end.
Definition q_parse_curie s := fun q => match q with QParseCurie s' false => str_eqb s s' | _ => false end.
Definition q_parse s := fun q => match q with QParse s' false => str_eqb s s' | _ => false end.
(* default-mode string result of a lookup: Some (Some x) value, Some None = None, None = absent or raised *)
Definition get_ostr (f : query -> bool) (z : zobs) : option (option str) :=
  match find_obs f z with Some v => ok_ostr v | None => None end.

(* agreement with the naive specification on the queries selected by [sel] *)
Definition agree (sel : query -> bool) (k : qcase) (z : zobs) : bool :=
  forallb (fun qv => if sel (fst qv) then val_eqb (snd qv) (spec_answer (qc_recs k) (qc_delim k) (fst qv)) else true) z.

Definition sel_C01 q := match q with QParseUri _ _ | QCompress _ _ _ | QIsUri _ | QCompressStrict _ => true | _ => false end.
Definition sel_C02 q := match q with
  | QExpand _ _ _ | QExpandPair _ _ _ _ | QExpandRef _ _ _ _ | QExpandAll _ _ | QExpandPairAll _ _ _
  | QIsCurie _ | QParseCurie _ _ | QExpandStrict _ => true | _ => false end.
Definition sel_C06 q := match q with QStdPrefix _ _ _ | QStdCurie _ _ _ | QStdUri _ _ _ => true | _ => false end.
Definition sel_C07 q := match q with
  | QIsUri _ | QIsCurie _ | QParse _ _ | QCompressOrStd _ _ _ | QExpandOrStd _ _ _ | QFormatCurie _ _
  | QCompressStrict _ | QExpandStrict _ => true | _ => false end.

(* a law instance that cannot be evaluated because a derived string is not in the battery counts as unchecked *)
Definition opt_true (o : option bool) : bool := match o with Some b => b | None => true end.
Definition ostr_eqb (a b : option str) : bool :=
  match a, b with Some x, Some y => str_eqb x y | None, None => true | _, _ => false end.

(* C03 laws on one string, using only observed answers *)
Definition law_C03_lossless (z : zobs) (u : str) : bool :=
  match get_ostr (q_compress u) z with
  | Some (Some x) =>
      opt_true (match find_obs (q_expand_all x) z with
                | Some (VList [VInt 0; VSome (VList l)]) => Some (existsb (fun v => val_eqb v (VStr u)) l)
                | Some _ => Some false | None => None end)
      && opt_true (match get_ostr (q_expand x) z, get_ostr (q_std_uri u) z with
                   | Some a, Some b => Some (ostr_eqb a b && match a with Some _ => true | None => false end)
                   | _, _ => None end)
  | _ => true
  end.
Definition law_C03_expand_compressible (z : zobs) (s : str) : bool :=
  match get_ostr (q_expand s) z with
  | Some (Some u) => opt_true (match find_obs (q_is_uri u) z with Some v => Some (val_eqb v (VList [VInt 0; VInt 1])) | None => None end)
  | _ => true
  end.
Definition law_C03_inverse (z : zobs) (s : str) : bool :=
  match get_ostr (q_expand s) z with
  | Some (Some u) => opt_true (match get_ostr (q_compress u) z, get_ostr (q_std_curie s) z with
                               | Some a, Some b => Some (ostr_eqb a b && match a with Some _ => true | None => false end)
                               | _, _ => None end)
  | _ => true
  end.
Definition P_C03 (k : qcase) (z : zobs) : bool :=
  if prefixes_delim_safe (qc_recs k) (qc_delim k) then
    forallb (law_C03_lossless z) (qc_strs k) && forallb (law_C03_expand_compressible z) (qc_strs k)
    && (if prefix_freeb (qc_recs k) then forallb (law_C03_inverse z) (qc_strs k) else true)
  else forallb (law_C03_expand_compressible z) (qc_strs k).

(* C06 laws *)
Definition law_idem (qf : str -> query -> bool) (z : zobs) (s : str) : bool :=
  match get_ostr (qf s) z with
  | Some (Some y) => opt_true (match get_ostr (qf y) z with Some r => Some (ostr_eqb r (Some y)) | None => None end)
  | _ => true
  end.
Definition law_same (qf qg : str -> query -> bool) (z : zobs) (s : str) : bool :=
  match get_ostr (qf s) z with
  | Some (Some y) => opt_true (match get_ostr (qg y) z, get_ostr (qg s) z with
                               | Some a, Some b => Some (ostr_eqb a b) | _, _ => None end)
  | _ => true
  end.
Definition P_C06 (k : qcase) (z : zobs) : bool :=
  agree sel_C06 k z
  && forallb (law_idem q_std_prefix z) (qc_strs k)
  && (if prefixes_delim_safe (qc_recs k) (qc_delim k)
      then forallb (law_idem q_std_curie z) (qc_strs k) && forallb (law_same q_std_curie q_expand z) (qc_strs k) else true)
  && (if prefix_freeb (qc_recs k)
      then forallb (law_idem q_std_uri z) (qc_strs k) && forallb (law_same q_std_uri q_compress z) (qc_strs k) else true).

(* C07: derived operations against the primitive parsers, on observed answers only *)
Definition is_some_v (v : val) : option bool :=
  match v with VList [VInt 0; VNone] => Some false | VList [VInt 0; VSome _] => Some true | _ => None end.
Definition as_vbool (v : val) : option bool :=
  match v with VList [VInt 0; VInt z] => Some (negb (Z.eqb z 0)) | _ => None end.
Definition obool_eqb (a b : option bool) : bool :=
  match a, b with Some x, Some y => Bool.eqb x y | _, _ => false end.
Definition law_C07 (k : qcase) (z : zobs) (s : str) : bool :=
  let g f := find_obs (f s) z in
  let isuri := match g q_is_uri with Some v => as_vbool v | None => None end in
  let iscurie := match g q_is_curie with Some v => as_vbool v | None => None end in
  let cu := match g q_compress with Some v => is_some_v v | None => None end in
  let pu := match g q_parse_uri with Some v => is_some_v v | None => None end in
  let ex := match g q_expand with Some v => is_some_v v | None => None end in
  obool_eqb isuri cu && obool_eqb isuri pu && obool_eqb iscurie ex
  && obool_eqb iscurie (Some (match partition (qc_delim k) s with
                              | Some (p, _) => match owner_by_prefix (qc_recs k) p with Some _ => true | None => false end
                              | None => false end))
  && match g q_parse, g q_parse_uri, g q_parse_curie with
     | Some pa, Some u, Some c =>
         val_eqb pa (if obool_eqb isuri (Some true) then u else if obool_eqb iscurie (Some true) then c else VList [VInt 0; VNone])
     | _, _, _ => false
     end.
Definition P_C07 (k : qcase) (z : zobs) : bool :=
  agree sel_C07 k z && forallb (law_C07 k z) (qc_strs k).

(* C08: the three modes of one function differ only in how failure is reported *)
Definition mode_law (x : val) (dflt pass strict both : val) : bool :=
  match dflt with
  | VList [VInt 0; VSome y] =>
      val_eqb pass dflt && val_eqb strict dflt && val_eqb both dflt
  | VList [VInt 0; VNone] =>
      val_eqb pass (VList [VInt 0; VSome x]) && val_eqb strict (VList [VInt 1]) && val_eqb both (VList [VInt 1])
  | _ => false
  end.
Definition mode_law1 (dflt strict : val) : bool :=
  match dflt with
  | VList [VInt 0; VSome y] => val_eqb strict dflt
  | VList [VInt 0; VNone] => val_eqb strict (VList [VInt 1])
  | _ => false
  end.
Definition fam4 (mk : bool -> bool -> query -> bool) (x : val) (z : zobs) : bool :=
  match find_obs (mk false false) z, find_obs (mk false true) z, find_obs (mk true false) z, find_obs (mk true true) z with
  | Some a, Some b, Some c, Some d => mode_law x a b c d
  | _, _, _, _ => false
  end.
Definition fam2 (mk : bool -> query -> bool) (z : zobs) : bool :=
  match find_obs (mk false) z, find_obs (mk true) z with
  | Some a, Some b => mode_law1 a b
  | _, _ => false
  end.
Definition beq := Bool.eqb.
Definition law_C08_str (z : zobs) (s : str) : bool :=
  fam4 (fun st pa q => match q with QCompress s' a b => str_eqb s s' && beq a st && beq b pa | _ => false end) (VStr s) z
  && fam4 (fun st pa q => match q with QExpand s' a b => str_eqb s s' && beq a st && beq b pa | _ => false end) (VStr s) z
  && fam4 (fun st pa q => match q with QCompressOrStd s' a b => str_eqb s s' && beq a st && beq b pa | _ => false end) (VStr s) z
  && fam4 (fun st pa q => match q with QExpandOrStd s' a b => str_eqb s s' && beq a st && beq b pa | _ => false end) (VStr s) z
  && fam4 (fun st pa q => match q with QStdPrefix s' a b => str_eqb s s' && beq a st && beq b pa | _ => false end) (VStr s) z
  && fam4 (fun st pa q => match q with QStdCurie s' a b => str_eqb s s' && beq a st && beq b pa | _ => false end) (VStr s) z
  && fam4 (fun st pa q => match q with QStdUri s' a b => str_eqb s s' && beq a st && beq b pa | _ => false end) (VStr s) z
  && fam2 (fun st q => match q with QParseUri s' a => str_eqb s s' && beq a st | _ => false end) z
  && fam2 (fun st q => match q with QParseCurie s' a => str_eqb s s' && beq a st | _ => false end) z
  && fam2 (fun st q => match q with QParse s' a => str_eqb s s' && beq a st | _ => false end) z
  && fam2 (fun st q => match q with QExpandAll s' a => str_eqb s s' && beq a st | _ => false end) z.
Definition law_C08_pair (d : str) (z : zobs) (pi : str * str) : bool :=
  let '(p, i) := pi in
  fam4 (fun st pa q => match q with QExpandPair p' i' a b => str_eqb p p' && str_eqb i i' && beq a st && beq b pa | _ => false end) (VStr (p ++ d ++ i)) z
  && fam4 (fun st pa q => match q with QExpandRef p' i' a b => str_eqb p p' && str_eqb i i' && beq a st && beq b pa | _ => false end) (VStr (p ++ d ++ i)) z
  && fam2 (fun st q => match q with QExpandPairAll p' i' a => str_eqb p p' && str_eqb i i' && beq a st | _ => false end) z.
Definition P_C08 (k : qcase) (z : zobs) : bool :=
  forallb (law_C08_str z) (qc_strs k) && forallb (law_C08_pair (qc_delim k) z) (qc_pairs k).

Definition P_C01 (k : qcase) (z : zobs) : bool := agree sel_C01 k z.
Definition P_C02 (k : qcase) (z : zobs) : bool := agree sel_C02 k z.

Definition P_query (prop : Z) (k : qcase) (z : zobs) : bool :=
  (if prop =? 1 then P_C01 k z else if prop =? 2 then P_C02 k z else if prop =? 3 then P_C03 k z
   else if prop =? 6 then P_C06 k z else if prop =? 7 then P_C07 k z else if prop =? 8 then P_C08 k z else false)%Z.

(* driver entry: case, implementation observation ->
   [impl obs = model obs; valid; P(model); P(impl); the model observation when it differs] *)
Definition eval_P (prop : Z) (k : qcase) (o : val) : Z :=
  match obs_answers o with
  | Some l => if Nat.eqb (length l) (length (qc_battery k))
              then (if P_query prop k (combine (qc_battery k) l) then 1 else 0)%Z else 2%Z
  | None => 2%Z     (* construction failed or malformed observation *)
  end.
Definition run_query (prop : Z) (case obs : val) : val :=
  match decode_qcase case with
  | None => VList [VInt (-1)]
  | Some k =>
      let m := model_qobs k in
      let same := val_eqb m obs in
      VList [vbool same; vbool (valid_q k); VInt (eval_P prop k m); VInt (eval_P prop k obs);
             if same then VList [] else m]
  end.
